/-
  Lemmas/UriUnfold.lean — for every named rule of the table `Expected.uri`: the language of its body
  (`DenN`: ordered choice read as union, repetition as Kleene star, anonymous sub-expressions
  expanded), written out.  Each statement is checked against the table by computation
  (`acc_unfold … rfl`): if the table changes, these lemmas stop compiling.
  (Statements printed by a script from the node table and then checked by Lean; `IPv6address`
  re-written by hand with `pow1` / `upto1`.)
-/
import PegtlVerif.Lemmas.UriDen
import PegtlVerif.Lemmas.UriAtoms
import PegtlVerif.Expected.Uri

set_option maxRecDepth 16384

namespace Pegtl.Uri
open Pegtl Pegtl.Spec Pegtl.Spec.Lang

/-- The grammar function of the committed URI table. -/
abbrev G : Nat → Option PExp := Gof Expected.uri

/-- Nodes 0 … 40 are the named rules (`Expected.uriNames`); the others are anonymous template-ids. -/
def named (i : Nat) : Bool := decide (i ≤ 40)

theorem named_spec : ∀ i < Expected.uri.size, named i = Expected.uriNames.any (·.2 == i) := by decide

/-- Strings consumed by successful invocations of node `i`. -/
abbrev A (i : Nat) : Lang := Acc G i

/-- `one< c >`. -/
abbrev ch (c : UInt8) : Lang := AtomLang (.one true [c])
/-- `one< c… >`. -/
abbrev chs (cs : List UInt8) : Lang := AtomLang (.one true cs)

/-- `n + 1` copies of `X` (what `rep< n + 1, X >` expands to). -/
def pow1 : Nat → Lang → Lang
  | 0, X => X
  | n + 1, X => cat X (pow1 n X)

/-- at most `k + 1` copies of `X` (what `rep_opt< k + 1, X >` expands to). -/
def upto1 : Nat → Lang → Lang
  | 0, X => alt X eps
  | k + 1, X => alt (cat X (upto1 k X)) eps

/-- `abnf::ALPHA` = atom -/
theorem unf_ALPHA : ∀ s, A 0 s →
    (AtomLang (.ranges [(97, 122), (65, 90)] none)) s :=
  fun _ h => acc_unfold' named 40 0 h

/-- `abnf::DIGIT` = atom -/
theorem unf_DIGIT : ∀ s, A 1 s →
    (AtomLang (.range true 48 57)) s :=
  fun _ h => acc_unfold' named 40 1 h

/-- `abnf::HEXDIG` = atom -/
theorem unf_HEXDIG : ∀ s, A 2 s →
    (AtomLang (.ranges [(48, 57), (97, 102), (65, 70)] none)) s :=
  fun _ h => acc_unfold' named 40 2 h

/-- `uri::dec_octet` = atom -/
theorem unf_dec_octet : ∀ s, A 3 s →
    (AtomLang (.maxDigits 255)) s :=
  fun _ h => acc_unfold' named 40 3 h

/-- `uri::IPv4address` = seq -/
theorem unf_IPv4address : ∀ s, A 4 s →
    (cat (A 3) (cat (ch 46) (cat (A 3) (cat (ch 46) (cat (A 3) (cat (ch 46) (A 3))))))) s :=
  fun _ h => acc_unfold' named 40 4 h

/-- `uri::h16` = repMinMax -/
theorem unf_h16 : ∀ s, A 5 s →
    (cat (A 2) (alt (cat (A 2) (alt (cat (A 2) (alt (A 2) eps)) eps)) eps)) s :=
  fun _ h => acc_unfold' named 40 5 h

/-- `uri::ls32` = sor -/
theorem unf_ls32 : ∀ s, A 6 s →
    (alt (cat (A 5) (cat (ch 58) (A 5))) (A 4)) s :=
  fun _ h => acc_unfold' named 40 6 h

/-- `uri::dcolon` = atom -/
theorem unf_dcolon : ∀ s, A 7 s →
    (AtomLang (.string [58, 58])) s :=
  fun _ h => acc_unfold' named 40 7 h

/-- `uri::IPv6address`: the nine alternatives (`H` = h16, `C` = ":", `DC` = "::", `LS` = ls32). -/
theorem unf_IPv6address : ∀ s, A 8 s →
    (let H := A 5; let C := ch 58; let DC := A 7; let LS := A 6
     let HC := cat H C; let CH := cat C H
     alt (cat (pow1 5 HC) LS)
    (alt (cat DC (cat (pow1 4 HC) LS))
    (alt (cat (alt H eps) (cat DC (cat (pow1 3 HC) LS)))
    (alt (cat (alt (cat H (upto1 0 CH)) eps) (cat DC (cat (pow1 2 HC) LS)))
    (alt (cat (alt (cat H (upto1 1 CH)) eps) (cat DC (cat (pow1 1 HC) LS)))
    (alt (cat (alt (cat H (upto1 2 CH)) eps) (cat DC (cat H (cat C LS))))
    (alt (cat (alt (cat H (upto1 3 CH)) eps) (cat DC LS))
    (alt (cat (alt (cat H (upto1 4 CH)) eps) (cat DC H))
         (cat (alt (cat H (upto1 5 CH)) eps) DC))))))))) s :=
  fun _ h => acc_unfold' named 40 8 h

/-- `uri::gen_delims` = atom -/
theorem unf_gen_delims : ∀ s, A 9 s →
    (chs [58, 47, 63, 35, 91, 93, 64]) s :=
  fun _ h => acc_unfold' named 40 9 h

/-- `uri::sub_delims` = atom -/
theorem unf_sub_delims : ∀ s, A 10 s →
    (chs [33, 36, 38, 39, 40, 41, 42, 43, 44, 59, 61]) s :=
  fun _ h => acc_unfold' named 40 10 h

/-- `uri::unreserved` = sor -/
theorem unf_unreserved : ∀ s, A 11 s →
    (alt (A 0) (alt (A 1) (chs [45, 46, 95, 126]))) s :=
  fun _ h => acc_unfold' named 40 11 h

/-- `uri::reserved` = sor -/
theorem unf_reserved : ∀ s, A 12 s →
    (alt (A 9) (A 10)) s :=
  fun _ h => acc_unfold' named 40 12 h

/-- `uri::IPvFuture` = ifMust -/
theorem unf_IPvFuture : ∀ s, A 13 s →
    (cat (chs [118, 86]) (cat (cat (A 2) (Star (A 2))) (cat (ch 46) (cat (alt (A 11) (alt (A 10) (ch 58))) (Star (alt (A 11) (alt (A 10) (ch 58)))))))) s :=
  fun _ h => acc_unfold' named 40 13 h

/-- `uri::IP_literal` = ifMust -/
theorem unf_IP_literal : ∀ s, A 14 s →
    (cat (ch 91) (cat (alt (A 13) (A 8)) (ch 93))) s :=
  fun _ h => acc_unfold' named 40 14 h

/-- `uri::pct_encoded` = ifMust -/
theorem unf_pct_encoded : ∀ s, A 15 s →
    (cat (ch 37) (cat (A 2) (A 2))) s :=
  fun _ h => acc_unfold' named 40 15 h

/-- `uri::pchar` = sor -/
theorem unf_pchar : ∀ s, A 16 s →
    (alt (A 11) (alt (A 15) (alt (A 10) (chs [58, 64])))) s :=
  fun _ h => acc_unfold' named 40 16 h

/-- `uri::query` = starPartial -/
theorem unf_query : ∀ s, A 17 s →
    (Star (alt (A 16) (chs [47, 63]))) s :=
  fun _ h => acc_unfold' named 40 17 h

/-- `uri::fragment` = starPartial -/
theorem unf_fragment : ∀ s, A 18 s →
    (Star (alt (A 16) (chs [47, 63]))) s :=
  fun _ h => acc_unfold' named 40 18 h

/-- `uri::segment` = starPartial -/
theorem unf_segment : ∀ s, A 19 s →
    (Star (A 16)) s :=
  fun _ h => acc_unfold' named 40 19 h

/-- `uri::segment_nz` = plus -/
theorem unf_segment_nz : ∀ s, A 20 s →
    (cat (A 16) (Star (A 16))) s :=
  fun _ h => acc_unfold' named 40 20 h

/-- `uri::segment_nz_nc` = plus -/
theorem unf_segment_nz_nc : ∀ s, A 21 s →
    (cat (alt (A 11) (alt (A 15) (alt (A 10) (ch 64)))) (Star (alt (A 11) (alt (A 15) (alt (A 10) (ch 64)))))) s :=
  fun _ h => acc_unfold' named 40 21 h

/-- `uri::path_abempty` = starPartial -/
theorem unf_path_abempty : ∀ s, A 22 s →
    (Star (cat (ch 47) (A 19))) s :=
  fun _ h => acc_unfold' named 40 22 h

/-- `uri::path_absolute` = seq -/
theorem unf_path_absolute : ∀ s, A 23 s →
    (cat (ch 47) (alt (cat (A 20) (Star (cat (ch 47) (A 19)))) eps)) s :=
  fun _ h => acc_unfold' named 40 23 h

/-- `uri::path_noscheme` = seq -/
theorem unf_path_noscheme : ∀ s, A 24 s →
    (cat (A 21) (Star (cat (ch 47) (A 19)))) s :=
  fun _ h => acc_unfold' named 40 24 h

/-- `uri::path_rootless` = seq -/
theorem unf_path_rootless : ∀ s, A 25 s →
    (cat (A 20) (Star (cat (ch 47) (A 19)))) s :=
  fun _ h => acc_unfold' named 40 25 h

/-- `uri::path_empty` = atom -/
theorem unf_path_empty : ∀ s, A 26 s →
    (AtomLang (.success)) s :=
  fun _ h => acc_unfold' named 40 26 h

/-- `uri::path` = sor -/
theorem unf_path : ∀ s, A 27 s →
    (alt (A 24) (alt (A 25) (alt (A 23) (A 22)))) s :=
  fun _ h => acc_unfold' named 40 27 h

/-- `uri::reg_name` = starPartial -/
theorem unf_reg_name : ∀ s, A 28 s →
    (Star (alt (A 11) (alt (A 15) (A 10)))) s :=
  fun _ h => acc_unfold' named 40 28 h

/-- `uri::port` = starPartial -/
theorem unf_port : ∀ s, A 29 s →
    (Star (A 1)) s :=
  fun _ h => acc_unfold' named 40 29 h

/-- `uri::host` = sor -/
theorem unf_host : ∀ s, A 30 s →
    (alt (A 14) (alt (A 4) (A 28))) s :=
  fun _ h => acc_unfold' named 40 30 h

/-- `uri::userinfo` = starPartial -/
theorem unf_userinfo : ∀ s, A 31 s →
    (Star (alt (A 11) (alt (A 15) (alt (A 10) (ch 58))))) s :=
  fun _ h => acc_unfold' named 40 31 h

/-- `uri::opt_userinfo` = partialR -/
theorem unf_opt_userinfo : ∀ s, A 32 s →
    (alt (cat (A 31) (ch 64)) eps) s :=
  fun _ h => acc_unfold' named 40 32 h

/-- `uri::authority` = seq -/
theorem unf_authority : ∀ s, A 33 s →
    (cat (A 32) (cat (A 30) (alt (cat (ch 58) (A 29)) eps))) s :=
  fun _ h => acc_unfold' named 40 33 h

/-- `uri::scheme` = seq -/
theorem unf_scheme : ∀ s, A 34 s →
    (cat (A 0) (Star (alt (A 0) (alt (A 1) (chs [43, 45, 46]))))) s :=
  fun _ h => acc_unfold' named 40 34 h

/-- `uri::hier_part` = sor -/
theorem unf_hier_part : ∀ s, A 35 s →
    (alt (cat (AtomLang (.string [47, 47])) (cat (A 33) (A 22))) (alt (A 25) (alt (A 23) (A 26)))) s :=
  fun _ h => acc_unfold' named 40 35 h

/-- `uri::relative_part` = sor -/
theorem unf_relative_part : ∀ s, A 36 s →
    (alt (cat (AtomLang (.string [47, 47])) (cat (A 33) (A 22))) (alt (A 24) (alt (A 23) (A 26)))) s :=
  fun _ h => acc_unfold' named 40 36 h

/-- `uri::relative_ref` = seq -/
theorem unf_relative_ref : ∀ s, A 37 s →
    (cat (A 36) (cat (alt (cat (ch 63) (A 17)) eps) (alt (cat (ch 35) (A 18)) eps))) s :=
  fun _ h => acc_unfold' named 40 37 h

/-- `uri::URI` = seq -/
theorem unf_URI : ∀ s, A 38 s →
    (cat (A 34) (cat (ch 58) (cat (A 35) (cat (alt (cat (ch 63) (A 17)) eps) (alt (cat (ch 35) (A 18)) eps))))) s :=
  fun _ h => acc_unfold' named 40 38 h

/-- `uri::URI_reference` = sor -/
theorem unf_URI_reference : ∀ s, A 39 s →
    (alt (A 38) (A 37)) s :=
  fun _ h => acc_unfold' named 40 39 h

/-- `uri::absolute_URI` = seq -/
theorem unf_absolute_URI : ∀ s, A 40 s →
    (cat (A 34) (cat (ch 58) (cat (A 35) (alt (cat (ch 63) (A 17)) eps)))) s :=
  fun _ h => acc_unfold' named 40 40 h

end Pegtl.Uri
