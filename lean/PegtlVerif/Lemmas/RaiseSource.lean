/-
  Lemmas/RaiseSource.lean — `Control< Rule >::raise` is only ever called from the body of `must< Rule >` or
  `raise< Rule >` (for that very rule), or by a `limit_depth` / `limit_bytes` action class (for its own
  pseudo-rule): a stack automaton over the trace that checks, at every `raise` event, the kind of the
  innermost open invocation (C08).
-/
import PegtlVerif.Lemmas.RawClosureX

namespace Pegtl

/-- May the innermost open invocation, of rule `i`, be the place where `raise` for `j` is called? -/
def raiseOK (cx : Ctx) (i j : Nat) : Bool :=
  (match cx.g[i]? with
   | some nd => (match nd.kind with
      | .must c => c == j
      | .raise t => t == j
      | _ => false)
   | none => false)
  || (j ≥ 1000000)        -- `limit_depth< N >` / `limit_bytes< N >` blame themselves (ids `limitDepthId`, `limitBytesId`)
  || (i == j && cx.msgs.contains j)   -- the `failure` hook of `must_if< Errors >::control< j >` raises for its own rule

def raiseStep (cx : Ctx) (s : List Nat) : Ev → Option (List Nat)
  | .enter i _ _ _ _ => some (i :: s)
  | .exit i _ _ =>
    match s with
    | f :: rest => if f = i then some rest else none
    | [] => none
  | .raise j _ =>
    match s with
    | f :: _ => if raiseOK cx f j = true then some s else none
    | [] => none
  | _ => some s

def runRaise (cx : Ctx) : List Nat → List Ev → Option (List Nat)
  | s, [] => some s
  | s, e :: es => match raiseStep cx s e with
    | some s' => runRaise cx s' es
    | none => none

theorem runRaise_append (cx : Ctx) (s : List Nat) (a b : List Ev) :
    runRaise cx s (a ++ b) = (runRaise cx s a).bind (fun s' => runRaise cx s' b) := by
  induction a generalizing s with
  | nil => rfl
  | cons e es ih =>
    simp only [List.cons_append, runRaise]
    cases raiseStep cx s e with
    | none => rfl
    | some s' => exact ih s'

/-- Accepted inside the open invocation of rule `i`, returning to it. -/
def RAcc (cx : Ctx) (i : Nat) (l : List Ev) : Prop := ∀ stk, runRaise cx (i :: stk) l = some (i :: stk)

/-- A complete invocation: accepted from every stack. -/
def RL (cx : Ctx) (l : List Ev) : Prop := ∀ stk, runRaise cx stk l = some stk

theorem RAcc.app {cx : Ctx} {i : Nat} {a b : List Ev} (ha : RAcc cx i a) (hb : RAcc cx i b) : RAcc cx i (a ++ b) := by
  intro stk
  rw [runRaise_append, ha stk]
  exact hb stk

def Ev.raiseNeutral : Ev → Bool
  | .enter _ _ _ _ _ | .exit _ _ _ | .raise _ _ => false
  | _ => true

theorem RAcc.neutral (cx : Ctx) (i : Nat) {e : Ev} (h : e.raiseNeutral = true) : RAcc cx i [e] := by
  intro stk
  cases e <;> simp_all [Ev.raiseNeutral, runRaise, raiseStep]

theorem RAcc.cons {cx : Ctx} {i : Nat} {e : Ev} {l : List Ev} (he : RAcc cx i [e]) (hl : RAcc cx i l) : RAcc cx i (e :: l) := by
  have := RAcc.app he hl
  simpa using this

theorem RAcc.raise {cx : Ctx} {i j : Nat} (c : Cursor) (h : raiseOK cx i j = true) : RAcc cx i [Ev.raise j c] := by
  intro stk
  simp [runRaise, raiseStep, h]

theorem RAcc_closed (cx : Ctx) (i : Nat) : RawClosedX (RAcc cx i) where
  nil := fun _ => rfl
  app := RAcc.app
  scope := by
    intro l d o ho h
    have hoo : RAcc cx i o := by
      rcases ho with rfl | ⟨c, k, rfl⟩
      · exact fun _ => rfl
      · exact RAcc.neutral cx i rfl
    have := RAcc.app (RAcc.neutral cx i (e := Ev.sctor d) rfl) (RAcc.app h (RAcc.app hoo (RAcc.neutral cx i (e := Ev.sdtor d) rfl)))
    simpa using this

def RRec (cx : Ctx) (rec : Rec) : Prop := ∀ j a m env st r, rec j a m env st = some r → RL cx r.raw

theorem nodeCore_raise {cx : Ctx} {rec : Rec} (hrec : RRec cx rec) (k i : Nat) (nd : Node) (hn : cx.g[i]? = some nd)
    (a : AMode) (m : RMode) (env : Env) (st : St) (r : Ret) (h : nodeCore cx rec k i nd a m env st = some r) :
    RAcc cx i r.raw := by
  have hb : ∀ mm r1, body cx rec k nd.kind a mm env st = some r1 → RAcc cx i r1.raw := by
    intro mm r1 h1
    refine body_rawX (RAcc_closed cx i) cx k nd.kind a mm env ?_ ?_ ?_ st r1 h1
    · intro j _ m' st' r' hr'
      exact fun stk => hrec j _ m' _ st' r' hr' _
    · intro j hk c
      refine RAcc.raise c ?_
      rcases hk with hk | hk <;> simp [raiseOK, hn, hk]
    · intro _ acts b e
      exact runActs_raw (fun _ => rfl) RAcc.app cx env.sd b e (fun _ => RAcc.neutral cx i rfl) acts
  unfold nodeCore at h
  split at h
  · exact hb _ _ h
  · simp only [Option.map_eq_some_iff] at h
    obtain ⟨r0, h0, rfl⟩ := h
    have q0 := hb _ _ h0
    have act_n : ∀ sd b e, (actEvent cx i (cx.actOf env i nd) sd b e).raiseNeutral = true := by
      intro sd b e; unfold actEvent; split <;> rfl
    simp only [guardRestore_raw]
    have own_raise : ∀ c, i ∈ cx.msgs → RAcc cx i [Ev.raise i c] := by
      intro c hm stk
      simp [runRaise, raiseStep, raiseOK, hm]
    refine RAcc.cons (RAcc.neutral cx i rfl) ?_
    unfold afterBody
    split
    · refine RAcc.app q0 ?_
      split
      · exact RAcc.neutral cx i rfl
      · exact fun _ => rfl
    · exact failureHook_raw_closed RAcc.app (RAcc.neutral cx i rfl) (fun hm => own_raise _ (Ctx.mem_withCtl_msgs hm)) q0
    · simp only
      split
      · exact RAcc.app q0 (RAcc.neutral cx i rfl)
      · refine RAcc.app (RAcc.app q0 (RAcc.neutral cx i (act_n _ _ _))) ?_
        split
        · exact RAcc.neutral cx i rfl
        · exact fun _ => rfl
      · exact failureHook_raw_closed RAcc.app (RAcc.neutral cx i rfl) (fun hm => own_raise _ (Ctx.mem_withCtl_msgs hm))
          (RAcc.app q0 (RAcc.neutral cx i (act_n _ _ _)))
      · exact RAcc.app q0 (RAcc.cons (RAcc.neutral cx i (act_n _ _ _)) (RAcc.neutral cx i rfl))

theorem stateScope_racc {cx : Ctx} {i : Nat} {o : Nat} {b : Bool} {r : Ret} (h : RAcc cx i r.raw) :
    RAcc cx i (stateScope cx o b r).raw := by
  unfold stateScope
  simp only
  split
  · exact (RAcc_closed cx i).scope _ _ (Or.inr ⟨_, _, rfl⟩) h
  · exact (RAcc_closed cx i).scope _ _ (Or.inl rfl) h

theorem nodeCall_raise {cx : Ctx} {rec : Rec} (hrec : RRec cx rec) (k i : Nat) (a : AMode) (m : RMode)
    (env : Env) (st : St) (r : Ret) (h : nodeCall cx rec k i a m env st = some r) : RL cx r.raw := by
  intro stk
  unfold nodeCall at h
  split at h
  · exact absurd h (by simp)
  · rename_i nd hn
    simp only [Option.map_eq_some_iff] at h
    obtain ⟨r0, h0, rfl⟩ := h
    have key : RAcc cx i r0.raw := by
      split at h0
      · exact nodeCore_raise hrec k i nd hn a m env st r0 h0
      · exact fun s => hrec _ _ _ _ _ _ h0 _
      · exact nodeCore_raise hrec k i nd hn _ m env st r0 h0
      · exact nodeCore_raise hrec k i nd hn _ m env st r0 h0
      · unfold limitDepthCall at h0
        split at h0
        · simp only [Option.some.injEq] at h0; subst h0
          exact RAcc.raise _ (by simp [raiseOK, limitDepthId])
        · simp only [Option.map_eq_some_iff] at h0
          obtain ⟨r1, h1, rfl⟩ := h0
          exact nodeCore_raise hrec k i nd hn a m env _ r1 h1
      · unfold limitBytesCall at h0
        simp only [Option.map_eq_some_iff] at h0
        obtain ⟨r1, h1, rfl⟩ := h0
        have q := nodeCore_raise hrec k i nd hn a m env _ r1 h1
        split
        · exact RAcc.app q (RAcc.raise _ (by simp [raiseOK, limitBytesId]; omega))
        · exact q
      · simp only [Option.map_eq_some_iff] at h0
        obtain ⟨r1, h1, rfl⟩ := h0
        exact stateScope_racc (nodeCore_raise hrec k i nd hn a m _ st r1 h1)
      · simp only [Option.map_eq_some_iff] at h0
        obtain ⟨r1, h1, rfl⟩ := h0
        exact stateScope_racc (fun s => hrec _ _ _ _ _ _ h1 _)
      · exact nodeCore_raise hrec k i nd hn a m _ st r0 h0
    simp only [bracket, dropOnFail_raw, List.cons_append, runRaise, raiseStep]
    rw [runRaise_append, key stk]
    simp [runRaise, raiseStep]

theorem run_raise (cx : Ctx) : ∀ n, RRec cx (run cx n) := by
  intro n
  induction n with
  | zero => intro j a m env st r h; simp [run] at h
  | succ n ih =>
    intro j a m env st r h
    simp only [run] at h
    exact nodeCall_raise ih n j a m env st r h

end Pegtl
