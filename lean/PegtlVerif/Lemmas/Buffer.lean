/-
  Lemmas/Buffer.lean — helper lemmas about Model/Buffer.lean: the invariant `Inv`, the reader call,
  the `require` loop for every schedule, `discard`, the window view, atoms over the buffer.
-/
import PegtlVerif.Model.Buffer
namespace Pegtl
namespace Buf

theorem copyIn_size (src : Array UInt8) (n : Nat) : ∀ (f d : Nat) (mem : Array UInt8), (copyIn src f d n mem).size = mem.size := by
  induction n with
  | zero => intro f d mem; rfl
  | succ n ih => intro f d mem; simp [copyIn, ih]

theorem setIfInBounds_getD (mem : Array UInt8) (d k : Nat) (v : UInt8) :
    (mem.setIfInBounds d v).getD k 0 = if k = d ∧ k < mem.size then v else mem.getD k 0 := by
  simp only [Array.getD_eq_getD_getElem?, Array.getElem?_setIfInBounds]
  by_cases h : d = k
  · subst h
    by_cases hs : d < mem.size
    · simp [hs]
    · simp [hs]
  · have : ¬ (k = d) := fun e => h e.symm
    simp [h, this]

theorem copyIn_getD (src : Array UInt8) (n : Nat) : ∀ (f d : Nat) (mem : Array UInt8) (k : Nat),
    (copyIn src f d n mem).getD k 0 =
      if d ≤ k ∧ k < d + n ∧ k < mem.size then src.getD (f + (k - d)) 0 else mem.getD k 0 := by
  induction n with
  | zero => intro f d mem k; simp [copyIn]; intro h1 h2; omega
  | succ n ih =>
    intro f d mem k
    simp only [copyIn]
    rw [ih, setIfInBounds_getD]
    simp only [Array.size_setIfInBounds]
    by_cases hk : k = d
    · subst hk
      have h1 : ¬ (k + 1 ≤ k ∧ k < k + 1 + n ∧ k < mem.size) := by omega
      rw [if_neg h1]
      by_cases hs : k < mem.size
      · rw [if_pos ⟨rfl, hs⟩, if_pos (by omega)]; simp
      · rw [if_neg (by omega), if_neg (by omega)]
    · by_cases hc : d + 1 ≤ k ∧ k < d + 1 + n ∧ k < mem.size
      · rw [if_pos hc, if_pos (by omega)]
        congr 1; omega
      · rw [if_neg hc, if_neg (by omega), if_neg (by omega)]

/-! ### The invariant -/

/-- What every reachable `buffer_input` satisfies. -/
structure Inv (b : Buffer) : Prop where
  alloc   : b.mem.size = b.maxb                    -- the allocation is `m_maximum` bytes
  cur_le  : b.cur.data ≤ b.endb                    -- `m_current.data <= m_end`
  end_le  : b.endb ≤ b.maxb                        -- `m_end <= m_buffer.get() + m_maximum`
  fed_eq  : b.base + b.endb = b.fed                -- the window ends where the reader stands
  fed_le  : b.fed ≤ b.stream.size
  content : ∀ k, k < b.endb → b.mem.getD k 0 = b.stream.getD (b.base + k) 0   -- buffer[k] = stream[base+k]
  byte_eq : b.base + b.cur.data = b.cur.byte       -- the byte counter is the logical position
  tame    : b.wild = false                         -- nothing touched memory outside the allocation

/-- `b'` is `b` after the window was topped up: same reader data, same cursor, same window
    origin, same parameters; only `m_end` may have moved right. -/
structure Same (b b' : Buffer) : Prop where
  stream : b'.stream = b.stream
  cur    : b'.cur = b.cur
  base   : b'.base = b.base
  maxb   : b'.maxb = b.maxb
  chunk  : b'.chunk = b.chunk
  eol    : b'.eol = b.eol
  endb   : b.endb ≤ b'.endb

theorem Same.refl (b : Buffer) : Same b b := ⟨rfl, rfl, rfl, rfl, rfl, rfl, Nat.le_refl _⟩

theorem Same.trans {a b c : Buffer} (h1 : Same a b) (h2 : Same b c) : Same a c :=
  ⟨h2.stream.trans h1.stream, h2.cur.trans h1.cur, h2.base.trans h1.base, h2.maxb.trans h1.maxb,
   h2.chunk.trans h1.chunk, h2.eol.trans h1.eol, Nat.le_trans h1.endb h2.endb⟩

theorem readCount_le (b : Buffer) (len : Nat) : b.readCount len ≤ len ∧ b.readCount len ≤ b.stream.size - b.fed := by
  unfold Buffer.readCount
  constructor
  · exact Nat.le_trans (Nat.min_le_left _ _) (Nat.min_le_left _ _)
  · exact Nat.min_le_right _ _

theorem readCount_zero (b : Buffer) (len : Nat) (hl : 0 < len) (h : b.readCount len = 0) : b.fed ≥ b.stream.size := by
  unfold Buffer.readCount at h
  cases hs : b.sched with
  | nil => simp only [hs] at h; omega
  | cons s t => simp only [hs] at h; omega

/-- One reader call followed by `m_end += r` keeps the invariant, whatever the schedule says. -/
theorem read_advance (b : Buffer) (len : Nat) (h : Inv b) (hl : len ≤ b.freeAfterEnd) :
    let rb := b.read len
    Inv { rb.2 with endb := rb.2.endb + rb.1 } ∧ Same b { rb.2 with endb := rb.2.endb + rb.1 } ∧
    ({ rb.2 with endb := rb.2.endb + rb.1 } : Buffer).fed = b.fed + rb.1 ∧ rb.1 = b.readCount len := by
  have hr := readCount_le b len
  unfold Buffer.freeAfterEnd at hl
  have hend := h.end_le
  simp only [Buffer.read]
  refine ⟨⟨?_, ?_, ?_, ?_, ?_, ?_, ?_, ?_⟩, ⟨rfl, rfl, rfl, rfl, rfl, rfl, ?_⟩, by trivial, by trivial⟩
  · simp [copyIn_size, h.alloc]
  · have := h.cur_le; simp only; omega
  · simp only; omega
  · have := h.fed_eq; simp only; omega
  · have := h.fed_le; simp only; omega
  · intro k hk
    simp only at hk ⊢
    rw [copyIn_getD]
    by_cases hc : b.endb ≤ k ∧ k < b.endb + b.readCount len ∧ k < b.mem.size
    · rw [if_pos hc]; congr 1; have := h.fed_eq; omega
    · rw [if_neg hc]; apply h.content; have := h.alloc; omega
  · exact h.byte_eq
  · simp only [h.tame, Bool.false_or, decide_eq_false_iff_not]; have := h.alloc; omega
  · simp only; omega

/-- A reader call that returned 0 leaves everything but the reader's own state alone. -/
theorem read_zero (b : Buffer) (len : Nat) (h : Inv b) (h0 : (b.read len).1 = 0) :
    Inv (b.read len).2 ∧ Same b (b.read len).2 ∧ (b.read len).2.fed = b.fed ∧ (b.read len).2.endb = b.endb := by
  simp only [Buffer.read] at h0 ⊢
  rw [h0]
  refine ⟨⟨?_, h.cur_le, h.end_le, ?_, ?_, ?_, h.byte_eq, ?_⟩, ⟨rfl, rfl, rfl, rfl, rfl, rfl, Nat.le_refl _⟩, by trivial, by trivial⟩
  · simp [copyIn, h.alloc]
  · exact h.fed_eq
  · exact h.fed_le
  · intro k hk; simp only [copyIn]; exact h.content k hk
  · simp only [h.tame, Bool.false_or, decide_eq_false_iff_not]; have := h.alloc; have := h.end_le; omega

/-- The `require` loop, for every schedule: invariant kept, cursor and window origin untouched,
    and with enough iterations it stops only when the amount is buffered or the stream is exhausted. -/
theorem requireLoop_spec (amount : Nat) : ∀ (fuel : Nat) (b : Buffer), Inv b → b.cur.data + amount ≤ b.maxb →
    Inv (requireLoop amount fuel b) ∧ Same b (requireLoop amount fuel b) ∧
    (b.stream.size - b.fed < fuel →
      (requireLoop amount fuel b).occupied ≥ amount ∨ (requireLoop amount fuel b).fed = b.stream.size) := by
  intro fuel
  induction fuel with
  | zero => intro b h _; exact ⟨h, Same.refl b, fun hf => by omega⟩
  | succ fuel ih =>
    intro b h hm
    simp only [requireLoop]
    by_cases hocc : b.occupied < amount
    · rw [if_pos hocc]
      have hlen : min b.freeAfterEnd (max (amount - b.occupied) b.chunk) ≤ b.freeAfterEnd := Nat.min_le_left _ _
      have hpos : 0 < min b.freeAfterEnd (max (amount - b.occupied) b.chunk) := by
        have := h.cur_le
        unfold Buffer.freeAfterEnd Buffer.occupied at *
        omega
      by_cases hr0 : (b.read (min b.freeAfterEnd (max (amount - b.occupied) b.chunk))).1 = 0
      · rw [if_pos hr0]
        obtain ⟨hi, hs, hf, _⟩ := read_zero b _ h hr0
        refine ⟨hi, hs, fun _ => Or.inr ?_⟩
        have hz := readCount_zero b _ hpos (by simpa [Buffer.read] using hr0)
        have := h.fed_le
        rw [hf]; omega
      · rw [if_neg hr0]
        obtain ⟨hi, hs, hf, hrc⟩ := read_advance b _ h hlen
        have hm' : ({ (b.read (min b.freeAfterEnd (max (amount - b.occupied) b.chunk))).2 with
              endb := (b.read (min b.freeAfterEnd (max (amount - b.occupied) b.chunk))).2.endb +
                (b.read (min b.freeAfterEnd (max (amount - b.occupied) b.chunk))).1 } : Buffer).cur.data + amount ≤
            ({ (b.read (min b.freeAfterEnd (max (amount - b.occupied) b.chunk))).2 with
              endb := (b.read (min b.freeAfterEnd (max (amount - b.occupied) b.chunk))).2.endb +
                (b.read (min b.freeAfterEnd (max (amount - b.occupied) b.chunk))).1 } : Buffer).maxb := by
          rw [hs.cur, hs.maxb]; exact hm
        obtain ⟨hi2, hs2, hp2⟩ := ih _ hi hm'
        refine ⟨hi2, hs.trans hs2, fun hfuel => ?_⟩
        have hst := hs.stream
        rw [hst, hf] at hp2
        have : b.stream.size - (b.fed + (b.read (min b.freeAfterEnd (max (amount - b.occupied) b.chunk))).1) < fuel := by
          have := (readCount_le b (min b.freeAfterEnd (max (amount - b.occupied) b.chunk))).2
          rw [← hrc] at this
          omega
        exact hp2 this
    · rw [if_neg hocc]
      exact ⟨h, Same.refl b, fun _ => Or.inl (by omega)⟩

/-- Bytes already in the window are not changed by topping it up. -/
theorem Same.peek_eq {b b' : Buffer} (hs : Same b b') (h : Inv b) (h' : Inv b') (k : Nat) (hk : k < b.occupied) :
    b'.peek k = b.peek k := by
  unfold Buffer.peek Buffer.occupied at *
  rw [hs.cur, h'.content _ (by have := hs.endb; omega), h.content _ (by omega), hs.stream, hs.base]

theorem Same.logicalPos {b b' : Buffer} (hs : Same b b') : b'.logicalPos = b.logicalPos := by
  unfold Buffer.logicalPos; rw [hs.base, hs.cur]

theorem Same.view {b b' : Buffer} (hs : Same b b') : b'.view = b.view := by
  unfold Buffer.view; rw [hs.cur, hs.stream]

theorem Same.memCtx {b b' : Buffer} (hs : Same b b') : b'.memCtx = b.memCtx := by
  unfold Buffer.memCtx; rw [hs.stream, hs.eol]

theorem Inv.occupied_le {b : Buffer} (h : Inv b) : b.occupied ≤ b.remaining := by
  have := h.fed_eq; have := h.fed_le; have := h.cur_le
  unfold Buffer.occupied Buffer.remaining Buffer.logicalPos; omega

/-- `require( amount )` in full. -/
theorem require_spec (b : Buffer) (amount : Nat) (h : Inv b) :
    ((b.require amount).1 = .overflow ∧ b.cur.data + amount > b.maxb ∧ (b.require amount).2 = b) ∨
    ((b.require amount).1 = .done ∧ b.cur.data + amount ≤ b.maxb ∧ Inv (b.require amount).2 ∧
      Same b (b.require amount).2 ∧
      ((b.require amount).2.occupied ≥ amount ∨ (b.require amount).2.fed = b.stream.size)) := by
  unfold Buffer.require
  by_cases h1 : b.cur.data + amount ≤ b.endb
  · rw [if_pos h1]
    refine Or.inr ⟨rfl, ?_, h, Same.refl b, Or.inl ?_⟩
    · have := h.end_le; omega
    · show b.endb - b.cur.data ≥ amount; omega
  · rw [if_neg h1]
    by_cases h2 : b.cur.data + amount > b.maxb
    · rw [if_pos h2]; exact Or.inl ⟨rfl, h2, rfl⟩
    · rw [if_neg h2]
      obtain ⟨hi, hs, hp⟩ := requireLoop_spec amount (b.stream.size - b.fed + 1) b h (by omega)
      exact Or.inr ⟨rfl, by omega, hi, hs, hp (by omega)⟩

/-- Consequence used everywhere: after a `require` that did not overflow, the window holds
    `min amount remaining` bytes, and never more than remain. -/
theorem require_done {b b' : Buffer} {amount : Nat} (h : Inv b) (hr : b.require amount = (.done, b')) :
    Inv b' ∧ Same b b' ∧ b'.occupied ≥ min amount b.remaining ∧ b'.occupied ≤ b.remaining ∧
    (b'.occupied ≥ amount ↔ b.remaining ≥ amount) := by
  rcases require_spec b amount h with ⟨ho, _, _⟩ | ⟨_, _, hi, hs, hp⟩
  · rw [hr] at ho; cases ho
  · rw [hr] at hi hs hp
    simp only at hi hs hp
    have hle := hi.occupied_le
    have hrem : b'.remaining = b.remaining := by unfold Buffer.remaining; rw [hs.logicalPos, hs.stream]
    rw [hrem] at hle
    have hfull : b'.fed = b.stream.size → b'.occupied = b.remaining := by
      intro hf
      have := hi.fed_eq; have := hi.cur_le
      unfold Buffer.occupied Buffer.remaining Buffer.logicalPos
      rw [← hs.base, ← hs.cur]; omega
    refine ⟨hi, hs, ?_, hle, ?_⟩
    · rcases hp with hp | hp
      · exact Nat.le_trans (Nat.min_le_left _ _) hp
      · rw [hfull hp]; exact Nat.min_le_right _ _
    · constructor
      · intro; omega
      · intro hge
        rcases hp with hp | hp
        · exact hp
        · rw [hfull hp]; exact hge

theorem Inv.view_avail {b : Buffer} (h : Inv b) : b.view.avail = b.remaining := by
  unfold Buffer.view St.avail Buffer.remaining Buffer.logicalPos
  simp only; rw [h.byte_eq]

/-! ### bump -/

/-- `internal::bump` over the allocation computes what it computes over the stream, as long as
    the bytes it walks over are window bytes. -/
theorem itBump_eq (mem stream : Array UInt8) (ch : UInt8) (n : Nat) : ∀ (it : It),
    (∀ i, i < n → mem.getD (it.data + i) 0 = stream.getD (it.byte + i) 0) →
    (itBump mem ch n it).data = it.data + n ∧
    (⟨(itBump mem ch n it).byte, (itBump mem ch n it).line, (itBump mem ch n it).col⟩ : Cursor) =
      bumpScan stream ch n ⟨it.byte, it.line, it.col⟩ := by
  induction n with
  | zero => intro it _; exact ⟨rfl, rfl⟩
  | succ n ih =>
    intro it hm
    have h0 := hm 0 (by omega)
    simp only [Nat.add_zero] at h0
    simp only [itBump, bumpScan]
    rw [h0]
    by_cases hc : stream.getD it.byte 0 = ch
    · rw [if_pos hc, if_pos hc]
      obtain ⟨h1, h2⟩ := ih ⟨it.data + 1, it.byte + 1, it.line + 1, 1⟩ (by
        intro i hi; have := hm (i + 1) (by omega); simp only; rw [Nat.add_assoc, Nat.add_assoc, Nat.add_comm 1 i]; exact this)
      exact ⟨by rw [h1]; simp only; omega, h2⟩
    · rw [if_neg hc, if_neg hc]
      obtain ⟨h1, h2⟩ := ih ⟨it.data + 1, it.byte + 1, it.line, it.col + 1⟩ (by
        intro i hi; have := hm (i + 1) (by omega); simp only; rw [Nat.add_assoc, Nat.add_assoc, Nat.add_comm 1 i]; exact this)
      exact ⟨by rw [h1]; simp only; omega, h2⟩

theorem bumpScan_pos (inp : Array UInt8) (ch : UInt8) (n : Nat) : ∀ c : Cursor, (bumpScan inp ch n c).pos = c.pos + n := by
  induction n with
  | zero => intro c; rfl
  | succ n ih => intro c; simp only [bumpScan]; rw [ih]; split <;> simp only <;> omega

theorem window_bytes {b : Buffer} (h : Inv b) (i : Nat) (hi : i < b.occupied) :
    b.mem.getD (b.cur.data + i) 0 = b.stream.getD (b.cur.byte + i) 0 := by
  unfold Buffer.occupied at hi
  rw [h.content _ (by omega), ← h.byte_eq]; congr 1; omega

/-- `bump( n )` over available bytes is `memory_input::bump( n )` at the same logical position. -/
theorem bump_spec (b : Buffer) (n : Nat) (h : Inv b) (hn : n ≤ b.occupied) :
    Inv (b.bump n) ∧ (b.bump n).view = Pegtl.bump b.memCtx b.view n ∧
    (b.bump n).cur.data = b.cur.data + n ∧ (b.bump n).occupied = b.occupied - n := by
  obtain ⟨h1, h2⟩ := itBump_eq b.mem b.stream b.eol.ch n b.cur (fun i hi => window_bytes h i (by omega))
  have hpos := bumpScan_pos b.stream b.eol.ch n ⟨b.cur.byte, b.cur.line, b.cur.col⟩
  rw [← h2] at hpos; simp only at hpos
  have hle := h.occupied_le
  have hfe := h.fed_eq; have hfl := h.fed_le; have hcl := h.cur_le; have hbe := h.byte_eq
  unfold Buffer.occupied at hn hle ⊢
  unfold Buffer.remaining Buffer.logicalPos at hle
  refine ⟨⟨h.alloc, ?_, h.end_le, h.fed_eq, h.fed_le, h.content, ?_, h.tame⟩, ?_, h1, ?_⟩
  · show (itBump b.mem b.eol.ch n b.cur).data ≤ b.endb; omega
  · show b.base + (itBump b.mem b.eol.ch n b.cur).data = (itBump b.mem b.eol.ch n b.cur).byte
    have := h.byte_eq; omega
  · unfold Buffer.view Pegtl.bump markOob Buffer.memCtx Buffer.bump
    simp only
    rw [if_pos (by omega)]
    simp only [h2]
  · show b.endb - (itBump b.mem b.eol.ch n b.cur).data = b.endb - b.cur.data - n; omega

theorem bumpInThisLine_spec (b : Buffer) (n : Nat) (h : Inv b) (hn : n ≤ b.occupied) :
    Inv (b.bumpInThisLine n) ∧ (b.bumpInThisLine n).view = Pegtl.bumpInThisLine b.view n := by
  have hle := h.occupied_le
  unfold Buffer.occupied at hn hle
  unfold Buffer.remaining Buffer.logicalPos at hle
  have hb := h.byte_eq; have hfe := h.fed_eq; have hfl := h.fed_le; have hcl := h.cur_le
  refine ⟨⟨h.alloc, ?_, h.end_le, h.fed_eq, h.fed_le, h.content, ?_, h.tame⟩, ?_⟩
  · show b.cur.data + n ≤ b.endb; omega
  · show b.base + (b.cur.data + n) = b.cur.byte + n; omega
  · unfold Buffer.view Pegtl.bumpInThisLine markOob bumpInThisLineC Buffer.bumpInThisLine
    simp only
    rw [if_pos (by omega)]

theorem bumpToNextLine_spec (b : Buffer) (n : Nat) (h : Inv b) (hn : n ≤ b.occupied) :
    Inv (b.bumpToNextLine n) ∧ (b.bumpToNextLine n).view = Pegtl.bumpToNextLine b.view n := by
  have hle := h.occupied_le
  unfold Buffer.occupied at hn hle
  unfold Buffer.remaining Buffer.logicalPos at hle
  have hb := h.byte_eq; have hfe := h.fed_eq; have hfl := h.fed_le; have hcl := h.cur_le
  refine ⟨⟨h.alloc, ?_, h.end_le, h.fed_eq, h.fed_le, h.content, ?_, h.tame⟩, ?_⟩
  · show b.cur.data + n ≤ b.endb; omega
  · show b.base + (b.cur.data + n) = b.cur.byte + n; omega
  · unfold Buffer.view Pegtl.bumpToNextLine markOob bumpToNextLineC Buffer.bumpToNextLine
    simp only
    rw [if_pos (by omega)]

/-! ### discard, rewind -/

theorem discard_spec (b : Buffer) (h : Inv b) :
    Inv b.discard ∧ b.discard.view = b.view ∧ b.discard.memCtx = b.memCtx ∧
    b.discard.logicalPos = b.logicalPos ∧ b.discard.occupied = b.occupied ∧
    (∀ k, k < b.occupied → b.discard.peek k = b.peek k) ∧
    b.discard.fed = b.fed ∧ b.discard.sched = b.sched ∧ b.discard.maxb = b.maxb ∧
    (b.cur.data > b.chunk → b.discard.cur.data = 0 ∧ b.discard.freeAfterEnd = b.freeAfterEnd + b.cur.data) ∧
    (b.cur.data ≤ b.chunk → b.discard = b) := by
  unfold Buffer.discard
  by_cases hc : b.cur.data > b.chunk
  · rw [if_pos hc]
    have hcl := h.cur_le; have hel := h.end_le; have ha := h.alloc
    refine ⟨⟨?_, ?_, ?_, ?_, h.fed_le, ?_, ?_, ?_⟩, rfl, rfl, ?_, ?_, ?_, rfl, rfl, rfl, fun _ => ⟨rfl, ?_⟩, fun hh => by omega⟩
    · simp [copyIn_size, ha]
    · show 0 ≤ b.endb - b.cur.data; omega
    · show b.endb - b.cur.data ≤ b.maxb; omega
    · show b.base + b.cur.data + (b.endb - b.cur.data) = b.fed; have := h.fed_eq; omega
    · intro k hk
      simp only at hk ⊢
      rw [copyIn_getD, if_pos (by omega), h.content _ (by omega)]
      congr 1; omega
    · exact h.byte_eq
    · simp only [h.tame, Bool.false_or, decide_eq_false_iff_not]; omega
    · unfold Buffer.logicalPos; simp only; omega
    · unfold Buffer.occupied; simp only; omega
    · intro k hk
      unfold Buffer.occupied at hk
      unfold Buffer.peek; simp only
      rw [copyIn_getD, if_pos (by omega)]
      congr 1; omega
    · unfold Buffer.freeAfterEnd; simp only; omega
  · rw [if_neg hc]
    exact ⟨h, rfl, rfl, rfl, rfl, fun _ _ => rfl, rfl, rfl, rfl, fun hh => absurd hh hc, fun _ => rfl⟩

theorem restore_spec (b : Buffer) (it : It) (h : Inv b) (hv : b.Valid it) :
    Inv (b.restore it) ∧ (b.restore it).logicalPos = it.byte :=
  ⟨⟨h.alloc, hv.2, h.end_le, h.fed_eq, h.fed_le, h.content, hv.1, h.tame⟩, hv.1⟩

theorem save_valid (b : Buffer) (h : Inv b) : b.Valid b.save := ⟨h.byte_eq, h.cur_le⟩

theorem Same.valid {b b' : Buffer} (hs : Same b b') {it : It} (hv : b.Valid it) : b'.Valid it :=
  ⟨by rw [hs.base]; exact hv.1, Nat.le_trans hv.2 hs.endb⟩

/-- A `discard` that moves the window invalidates every inputerator saved before it. -/
theorem discard_invalidates (b : Buffer) (it : It) (hv : b.Valid it) (hc : b.cur.data > b.chunk) :
    ¬ b.discard.Valid it := by
  unfold Buffer.discard; rw [if_pos hc]
  intro hv'
  have h1 := hv.1; have h2 := hv'.1
  simp only at h2
  omega

theorem init_inv (stream : Array UInt8) (sched : List Nat) (maximum chunk : Nat) (eol : Eol) :
    Inv (Buffer.init stream sched maximum chunk eol) :=
  ⟨by simp [Buffer.init], Nat.le_refl _, Nat.zero_le _, rfl, Nat.zero_le _,
   fun k hk => absurd hk (Nat.not_lt_zero k), rfl, rfl⟩

/-! ### closure under every operation -/

theorem step_inv (b : Buffer) (op : Op) (h : Inv b) (hl : op.Legal b) : Inv (b.step op).2 := by
  have hreq : ∀ n, Inv (b.require n).2 := by
    intro n
    rcases require_spec b n h with ⟨_, _, he⟩ | ⟨_, _, hi, _⟩
    · rw [he]; exact h
    · exact hi
  cases op with
  | require n =>
    simp only [Buffer.step]; have := hreq n
    split <;> rename_i heq <;> rw [heq] at this <;> exact this
  | size n =>
    simp only [Buffer.step, Buffer.size]; have := hreq n
    split <;> rename_i heq <;> simp only [Prod.mk.injEq] at heq <;> rw [← heq.2.2] <;> exact this
  | empty =>
    simp only [Buffer.step, Buffer.empty]; have := hreq 1
    split <;> rename_i heq <;> simp only [Prod.mk.injEq] at heq <;> rw [← heq.2.2] <;> exact this
  | endOf n =>
    simp only [Buffer.step, Buffer.endOf]; have := hreq n
    split <;> rename_i heq <;> simp only [Prod.mk.injEq] at heq <;> rw [← heq.2.2] <;> exact this
  | bump n => exact (bump_spec b n h hl).1
  | bumpInThisLine n => exact (bumpInThisLine_spec b n h hl).1
  | bumpToNextLine n => exact (bumpToNextLine_spec b n h hl).1
  | peek off => exact h
  | discard => exact (discard_spec b h).1
  | restore it => exact (restore_spec b it h hl).1

/-! ### the window view: `size`, `empty`, `peek` against the memory input -/

theorem size_done {b b' : Buffer} {n sz : Nat} (h : Inv b) (hs : b.size n = (.done, sz, b')) :
    Inv b' ∧ Same b b' ∧ sz = b'.occupied ∧ (sz ≥ n ↔ b.view.avail ≥ n) ∧ sz ≤ b.view.avail ∧
    (0 < n → (sz = 0 ↔ b.view.avail = 0)) := by
  unfold Buffer.size at hs
  simp only [Prod.mk.injEq] at hs
  obtain ⟨h1, h2, h3⟩ := hs
  have hr : b.require n = (.done, b') := by rw [← h1, ← h3]
  obtain ⟨hi, hsame, hmin, hle, hiff⟩ := require_done h hr
  rw [h.view_avail, ← h2, h3]
  refine ⟨hi, hsame, rfl, hiff, hle, fun hn => ?_⟩
  constructor
  · intro h0; rw [h0] at hmin; by_cases hz : b.remaining = 0
    · exact hz
    · exfalso; have : min n b.remaining ≥ 1 := by omega
      omega
  · intro h0; omega

theorem size_overflow {b b' : Buffer} {n sz : Nat} (h : Inv b) (hs : b.size n = (.overflow, sz, b')) :
    b' = b ∧ b.cur.data + n > b.maxb := by
  unfold Buffer.size at hs
  simp only [Prod.mk.injEq] at hs
  rcases require_spec b n h with ⟨_, hgt, he⟩ | ⟨hd, _⟩
  · exact ⟨by rw [← hs.2.2, he], hgt⟩
  · rw [hs.1] at hd; cases hd

theorem empty_done {b b' : Buffer} {e : Bool} (h : Inv b) (he : b.empty = (.done, e, b')) :
    Inv b' ∧ Same b b' ∧ e = b.view.empty ∧ (e = false → 1 ≤ b'.occupied) := by
  unfold Buffer.empty at he
  simp only [Prod.mk.injEq] at he
  obtain ⟨h1, h2, h3⟩ := he
  have hr : b.require 1 = (.done, b') := by rw [← h1, ← h3]
  obtain ⟨hi, hsame, hmin, hle, hiff⟩ := require_done h hr
  rw [h3] at h2
  have hcl := hi.cur_le
  have hav := h.view_avail
  unfold St.avail at hav
  have hbl : b.view.cur.pos ≤ b.view.endp := by
    have := h.byte_eq; have := h.fed_eq; have := h.fed_le; have := h.cur_le
    show b.cur.byte ≤ b.stream.size; omega
  unfold Buffer.occupied at hiff hmin hle ⊢
  refine ⟨hi, hsame, ?_, ?_⟩
  · rw [← h2]; unfold St.empty
    by_cases hx : b'.cur.data = b'.endb
    · have : ¬ (b.remaining ≥ 1) := fun hge => by have := hiff.2 hge; omega
      have h0 : b.view.cur.pos = b.view.endp := by omega
      rw [beq_iff_eq.2 hx, beq_iff_eq.2 h0]
    · have : b.remaining ≥ 1 := hiff.1 (by omega)
      have h0 : ¬ (b.view.cur.pos = b.view.endp) := by omega
      rw [beq_eq_false_iff_ne.2 hx, beq_eq_false_iff_ne.2 h0]
  · intro hf; rw [← h2] at hf
    have : ¬ (b'.cur.data = b'.endb) := by simpa using hf
    omega

theorem empty_overflow {b b' : Buffer} {e : Bool} (h : Inv b) (he : b.empty = (.overflow, e, b')) :
    b' = b ∧ b.cur.data + 1 > b.maxb := by
  unfold Buffer.empty at he
  simp only [Prod.mk.injEq] at he
  rcases require_spec b 1 h with ⟨_, hgt, heq⟩ | ⟨hd, _⟩
  · exact ⟨by rw [← he.2.2, heq], hgt⟩
  · rw [he.1] at hd; cases hd

/-- A peek inside the window reads the stream byte at the logical position, and the memory
    input reading the same byte stays inside its data. -/
theorem peek_view {b : Buffer} (h : Inv b) {off : Nat} (ho : off < b.occupied) :
    (rd b.memCtx b.view off) = (b.peek off, b.view) := by
  have hle := h.occupied_le
  have hwb := window_bytes h off ho
  have hfe := h.fed_eq; have hfl := h.fed_le; have hcl := h.cur_le; have hbe := h.byte_eq
  unfold Buffer.occupied at ho hle
  unfold Buffer.remaining Buffer.logicalPos at hle
  unfold rd Buffer.peek
  have : b.view.cur.pos + off < b.view.endp := by show b.cur.byte + off < b.stream.size; omega
  rw [if_pos this, hwb]; rfl

/-! ### atoms over the buffer against atoms over the memory input -/

/-- An atom over the buffer against the same atom over the memory input. -/
def AtomSim (b : Buffer) (res : Outcome × Bool × Buffer) (mem : Bool × St) : Prop :=
  match res with
  | (.overflow, _, b') => Inv b'
  | (.done, r, b') => Inv b' ∧ b'.memCtx = b.memCtx ∧ mem = (r, b'.view)

theorem bumpHelp_spec (b : Buffer) (t : Bool) (n : Nat) (h : Inv b) (hn : n ≤ b.occupied) :
    Inv (b.bumpHelp t n) ∧ (b.bumpHelp t n).view = Pegtl.bumpHelp b.memCtx t b.view n ∧
    (b.bumpHelp t n).memCtx = b.memCtx := by
  unfold Buffer.bumpHelp Pegtl.bumpHelp
  cases t
  · simp only [Bool.false_eq_true, if_false]
    exact ⟨(bumpInThisLine_spec b n h hn).1, (bumpInThisLine_spec b n h hn).2, rfl⟩
  · simp only [if_true]
    exact ⟨(bump_spec b n h hn).1, (bump_spec b n h hn).2.1, rfl⟩

theorem peekOne_sim (b : Buffer) (t : Bool) (test : UInt8 → Bool) (h : Inv b) :
    AtomSim b (peekOneBuf b t test)
      (if b.view.empty then (false, b.view) else
        if test (rd b.memCtx b.view 0).1 then (true, Pegtl.bumpHelp b.memCtx t (rd b.memCtx b.view 0).2 1)
        else (false, (rd b.memCtx b.view 0).2)) := by
  unfold peekOneBuf
  rcases he : b.empty with ⟨o, e, b1⟩
  cases o with
  | overflow =>
    simp only [AtomSim]
    rw [(empty_overflow h he).1]; exact h
  | done =>
    obtain ⟨hi, hs, hev, hocc⟩ := empty_done h he
    cases e with
    | true =>
      simp only [AtomSim]
      rw [← hev]; simp only [if_true]
      exact ⟨hi, hs.memCtx, by rw [hs.view]⟩
    | false =>
      have hpk := peek_view hi (off := 0) (by have := hocc rfl; omega)
      rw [hs.view, hs.memCtx] at hpk
      rw [← hev]; simp only [Bool.false_eq_true, if_false]
      rw [hpk]; simp only
      by_cases ht : test (b1.peek 0) = true
      · rw [if_pos ht, if_pos ht]
        obtain ⟨i2, v2, m2⟩ := bumpHelp_spec b1 t 1 hi (hocc rfl)
        simp only [AtomSim]
        refine ⟨i2, m2.trans hs.memCtx, ?_⟩
        rw [v2, hs.view, hs.memCtx]
      · rw [if_neg ht, if_neg ht]
        simp only [AtomSim]
        exact ⟨hi, hs.memCtx, by rw [hs.view]⟩

/-- Everything a rule may do after a `size( n )` that did not overflow, phrased on the memory side. -/
theorem size_ctx {b b1 : Buffer} {n sz : Nat} (h : Inv b) (hs : b.size n = (.done, sz, b1)) :
    Inv b1 ∧ b1.memCtx = b.memCtx ∧ b1.view = b.view ∧ sz = b1.occupied ∧
    (sz ≥ n ↔ b.view.avail ≥ n) ∧ sz ≤ b.view.avail ∧ (0 < n → (sz = 0 ↔ b.view.avail = 0)) ∧
    (∀ off, off < sz → rd b.memCtx b.view off = (b1.peek off, b.view)) ∧
    (∀ k, k ≤ sz → Inv (b1.bumpToNextLine k) ∧ (b1.bumpToNextLine k).view = Pegtl.bumpToNextLine b.view k ∧
      (b1.bumpToNextLine k).memCtx = b.memCtx) ∧
    (∀ k t, k ≤ sz → Inv (b1.bumpHelp t k) ∧ (b1.bumpHelp t k).view = Pegtl.bumpHelp b.memCtx t b.view k ∧
      (b1.bumpHelp t k).memCtx = b.memCtx) ∧
    (∀ k, k ≤ sz → Inv (b1.bump k) ∧ (b1.bump k).view = Pegtl.bump b.memCtx b.view k ∧ (b1.bump k).memCtx = b.memCtx) := by
  obtain ⟨hi, hsame, hocc, hiff, hle, hz⟩ := size_done h hs
  refine ⟨hi, hsame.memCtx, hsame.view, hocc, hiff, hle, hz, ?_, ?_, ?_, ?_⟩
  · intro off ho
    rw [← hsame.view, ← hsame.memCtx]; exact peek_view hi (by omega)
  · intro k hk
    obtain ⟨a1, a2⟩ := bumpToNextLine_spec b1 k hi (by omega)
    exact ⟨a1, by rw [a2, hsame.view], hsame.memCtx⟩
  · intro k t hk
    obtain ⟨a1, a2, a3⟩ := bumpHelp_spec b1 t k hi (by omega)
    exact ⟨a1, by rw [a2, hsame.view, hsame.memCtx], a3.trans hsame.memCtx⟩
  · intro k hk
    obtain ⟨a1, a2, _⟩ := bump_spec b1 k hi (by omega)
    exact ⟨a1, by rw [a2, hsame.view, hsame.memCtx], hsame.memCtx⟩

theorem cmpBuf_eq (b : Buffer) (eq : UInt8 → UInt8 → Bool) (h : Inv b) : ∀ (cs : List UInt8) (off : Nat),
    off + cs.length ≤ b.occupied → cmpBuf b eq off cs = cmpBytes b.memCtx eq (b.view.cur.pos + off) cs := by
  intro cs
  induction cs with
  | nil => intro off _; rfl
  | cons c cs ih =>
    intro off ho
    simp only [List.length_cons] at ho
    simp only [cmpBuf, cmpBytes]
    rw [ih (off + 1) (by omega)]
    have : b.peek off = b.memCtx.inp.getD (b.view.cur.pos + off) 0 := window_bytes h off (by omega)
    rw [this, Nat.add_assoc]

/-- `Eol::eol_match` over the buffer against the memory one: same verdict, same position, and the
    reported size is zero on one side iff it is on the other (all `eolf` looks at). -/
def EolSim (b : Buffer) (res : Outcome × Bool × Nat × Buffer) (mem : Bool × Nat × St) : Prop :=
  match res with
  | (.overflow, _, _, b') => Inv b'
  | (.done, d, sz, b') => Inv b' ∧ b'.memCtx = b.memCtx ∧ mem.1 = d ∧ mem.2.2 = b'.view ∧ (sz = 0 ↔ mem.2.1 = 0)

theorem EolSim.mk_done {b b' : Buffer} {d : Bool} {sz : Nat} {mem : Bool × Nat × St} (hi : Inv b') (hm : b'.memCtx = b.memCtx)
    (hd : mem.1 = d) (hv : mem.2.2 = b'.view) (hz : sz = 0 ↔ mem.2.1 = 0) : EolSim b (.done, d, sz, b') mem := ⟨hi, hm, hd, hv, hz⟩

theorem EolSim.mk_ovf {b b' : Buffer} {d : Bool} {sz : Nat} {mem : Bool × Nat × St} (hi : Inv b') :
    EolSim b (.overflow, d, sz, b') mem := hi

theorem eolMatch_sim (b : Buffer) (h : Inv b) : EolSim b (eolMatchBuf b) (eolMatch b.memCtx b.view) := by
  unfold eolMatchBuf eolMatch
  have hE : b.memCtx.eol = b.eol := rfl
  rw [hE]
  cases heol : b.eol with
  | lf =>
    simp only
    rcases hsz : b.size 1 with ⟨o, sz, b1⟩
    cases o with
    | overflow => exact EolSim.mk_ovf (by rw [(size_overflow h hsz).1]; exact h)
    | done =>
      obtain ⟨hi, hm, hv, _, hiff, hle, hz, hrd, hnl, _, _⟩ := size_ctx h hsz
      have hz := hz (by omega)
      simp only
      by_cases h0 : sz > 0
      · have ha : b.view.avail > 0 := by omega
        rw [if_pos h0, if_pos ha, hrd 0 h0]
        simp only
        by_cases hc : b1.peek 0 = 10
        · rw [if_pos hc, if_pos hc]
          obtain ⟨a1, a2, a3⟩ := hnl 1 (by omega)
          exact EolSim.mk_done a1 a3 rfl a2.symm (hz)
        · rw [if_neg hc, if_neg hc]
          exact EolSim.mk_done hi hm rfl hv.symm hz
      · have ha : ¬ b.view.avail > 0 := by omega
        rw [if_neg h0, if_neg ha]
        exact EolSim.mk_done hi hm rfl hv.symm hz
  | cr =>
    simp only
    rcases hsz : b.size 1 with ⟨o, sz, b1⟩
    cases o with
    | overflow => exact EolSim.mk_ovf (by rw [(size_overflow h hsz).1]; exact h)
    | done =>
      obtain ⟨hi, hm, hv, _, hiff, hle, hz, hrd, hnl, _, _⟩ := size_ctx h hsz
      have hz := hz (by omega)
      simp only
      by_cases h0 : sz > 0
      · have ha : b.view.avail > 0 := by omega
        rw [if_pos h0, if_pos ha, hrd 0 h0]
        simp only
        by_cases hc : b1.peek 0 = 13
        · rw [if_pos hc, if_pos hc]
          obtain ⟨a1, a2, a3⟩ := hnl 1 (by omega)
          exact EolSim.mk_done a1 a3 rfl a2.symm (hz)
        · rw [if_neg hc, if_neg hc]
          exact EolSim.mk_done hi hm rfl hv.symm hz
      · have ha : ¬ b.view.avail > 0 := by omega
        rw [if_neg h0, if_neg ha]
        exact EolSim.mk_done hi hm rfl hv.symm hz
  | crlf =>
    simp only
    rcases hsz : b.size 2 with ⟨o, sz, b1⟩
    cases o with
    | overflow => exact EolSim.mk_ovf (by rw [(size_overflow h hsz).1]; exact h)
    | done =>
      obtain ⟨hi, hm, hv, _, hiff, hle, hz, hrd, hnl, _, _⟩ := size_ctx h hsz
      have hz := hz (by omega)
      simp only
      by_cases h1 : sz > 1
      · have ha : b.view.avail > 1 := by omega
        rw [if_pos h1, if_pos ha, hrd 0 (by omega)]
        simp only
        by_cases hc : b1.peek 0 = 13
        · rw [if_pos hc, if_pos hc, hrd 1 h1]
          simp only
          by_cases hd : b1.peek 1 = 10
          · rw [if_pos hd, if_pos hd]
            obtain ⟨a1, a2, a3⟩ := hnl 2 (by omega)
            exact EolSim.mk_done a1 a3 rfl a2.symm (hz)
          · rw [if_neg hd, if_neg hd]
            exact EolSim.mk_done hi hm rfl hv.symm hz
        · rw [if_neg hc, if_neg hc]
          exact EolSim.mk_done hi hm rfl hv.symm hz
      · have ha : ¬ b.view.avail > 1 := by omega
        rw [if_neg h1, if_neg ha]
        exact EolSim.mk_done hi hm rfl hv.symm hz
  | lfCrlf =>
    simp only
    rcases hsz : b.size 2 with ⟨o, sz, b1⟩
    cases o with
    | overflow => exact EolSim.mk_ovf (by rw [(size_overflow h hsz).1]; exact h)
    | done =>
      obtain ⟨hi, hm, hv, _, hiff, hle, hz, hrd, hnl, _, _⟩ := size_ctx h hsz
      have hz := hz (by omega)
      simp only
      by_cases h0 : sz > 0
      · have ha : b.view.avail > 0 := by omega
        rw [if_pos h0, if_pos ha, hrd 0 h0]
        simp only
        by_cases hc : b1.peek 0 = 10
        · rw [if_pos hc, if_pos hc]
          obtain ⟨a1, a2, a3⟩ := hnl 1 (by omega)
          exact EolSim.mk_done a1 a3 rfl a2.symm (by simp)
        · rw [if_neg hc, if_neg hc]
          have hgt : (sz > 1) ↔ (b.view.avail > 1) := by omega
          by_cases hcr : (b1.peek 0 = 13 && decide (sz > 1)) = true
          · have hcr' : (b1.peek 0 = 13 && decide (b.view.avail > 1)) = true := by
              simp only [Bool.and_eq_true, decide_eq_true_eq] at hcr ⊢; exact ⟨hcr.1, hgt.1 hcr.2⟩
            rw [if_pos hcr, if_pos hcr']
            have h1 : sz > 1 := by simp only [Bool.and_eq_true, decide_eq_true_eq] at hcr; exact hcr.2
            rw [hrd 1 h1]
            simp only
            by_cases hd : b1.peek 1 = 10
            · rw [if_pos hd, if_pos hd]
              obtain ⟨a1, a2, a3⟩ := hnl 2 (by omega)
              exact EolSim.mk_done a1 a3 rfl a2.symm (by simp)
            · rw [if_neg hd, if_neg hd]
              exact EolSim.mk_done hi hm rfl hv.symm hz
          · have hcr' : ¬ ((b1.peek 0 = 13 && decide (b.view.avail > 1)) = true) := by
              simp only [Bool.and_eq_true, decide_eq_true_eq] at hcr ⊢; intro hh; exact hcr ⟨hh.1, hgt.2 hh.2⟩
            rw [if_neg hcr, if_neg hcr']
            exact EolSim.mk_done hi hm rfl hv.symm hz
      · have ha : ¬ b.view.avail > 0 := by omega
        rw [if_neg h0, if_neg ha]
        exact EolSim.mk_done hi hm rfl hv.symm hz
  | crCrlf =>
    simp only
    rcases hsz : b.size 2 with ⟨o, sz, b1⟩
    cases o with
    | overflow => exact EolSim.mk_ovf (by rw [(size_overflow h hsz).1]; exact h)
    | done =>
      obtain ⟨hi, hm, hv, _, hiff, hle, hz, hrd, hnl, _, _⟩ := size_ctx h hsz
      have hz := hz (by omega)
      simp only
      by_cases h0 : sz > 0
      · have ha : b.view.avail > 0 := by omega
        rw [if_pos h0, if_pos ha, hrd 0 h0]
        simp only
        by_cases hc : b1.peek 0 = 13
        · rw [if_pos hc, if_pos hc]
          by_cases h1 : sz > 1
          · have ha1 : b.view.avail > 1 := by omega
            rw [if_pos h1, if_pos ha1, hrd 1 h1]
            simp only
            by_cases hd : b1.peek 1 = 10
            · rw [if_pos hd]
              obtain ⟨a1, a2, a3⟩ := hnl 2 (by omega)
              exact EolSim.mk_done a1 a3 rfl a2.symm (by simp)
            · rw [if_neg hd]
              obtain ⟨a1, a2, a3⟩ := hnl 1 (by omega)
              exact EolSim.mk_done a1 a3 rfl a2.symm (by simp)
          · have ha1 : ¬ b.view.avail > 1 := by omega
            rw [if_neg h1, if_neg ha1]
            obtain ⟨a1, a2, a3⟩ := hnl 1 (by omega)
            exact EolSim.mk_done a1 a3 rfl a2.symm (by simp)
        · rw [if_neg hc, if_neg hc]
          exact EolSim.mk_done hi hm rfl hv.symm hz
      · have ha : ¬ b.view.avail > 0 := by omega
        rw [if_neg h0, if_neg ha]
        exact EolSim.mk_done hi hm rfl hv.symm hz

theorem bumpScan_add (inp : Array UInt8) (ch : UInt8) (a k : Nat) : ∀ c : Cursor,
    bumpScan inp ch (a + k) c = bumpScan inp ch k (bumpScan inp ch a c) := by
  induction a with
  | zero => intro c; simp [bumpScan]
  | succ a ih => intro c; rw [Nat.add_right_comm]; simp only [bumpScan]; exact ih _

theorem view_pos_le {b : Buffer} (h : Inv b) : b.view.cur.pos ≤ b.view.endp := by
  have := h.byte_eq; have := h.fed_eq; have := h.fed_le; have := h.cur_le
  show b.cur.byte ≤ b.stream.size; omega

theorem mem_bump_add (cx : Ctx) (st : St) (a k : Nat) (hle : st.cur.pos + a + k ≤ st.endp) :
    Pegtl.bump cx (Pegtl.bump cx st a) k = Pegtl.bump cx st (a + k) := by
  have e1 : markOob st a = st := by unfold markOob; rw [if_pos (by omega)]
  have e3 : markOob st (a + k) = st := by unfold markOob; rw [if_pos (by omega)]
  unfold Pegtl.bump
  rw [e1, e3]
  have e2 : markOob { st with cur := bumpScan cx.inp cx.eol.ch a st.cur } k =
      { st with cur := bumpScan cx.inp cx.eol.ch a st.cur } := by
    unfold markOob; rw [if_pos (by simp only [bumpScan_pos]; omega)]
  rw [e2, bumpScan_add]

theorem mem_bump_zero (cx : Ctx) (st : St) (hle : st.cur.pos ≤ st.endp) : Pegtl.bump cx st 0 = st := by
  unfold Pegtl.bump markOob
  rw [if_pos (by omega)]
  rfl

theorem everything_sim : ∀ (fuel : Nat) (b : Buffer), Inv b → b.remaining < fuel →
    match everythingLoop fuel b with
    | (.overflow, b') => Inv b'
    | (.done, b') => Inv b' ∧ b'.memCtx = b.memCtx ∧ b'.view = Pegtl.bump b.memCtx b.view b.view.avail := by
  intro fuel
  induction fuel with
  | zero => intro b _ hf; omega
  | succ fuel ih =>
    intro b h hf
    simp only [everythingLoop]
    rcases hsz : b.size 1 with ⟨o, sz, b1⟩
    cases o with
    | overflow => simp only; rw [(size_overflow h hsz).1]; exact h
    | done =>
      obtain ⟨hi, hm, hv, hocc, hiff, hle, hz, _, _, _, hbump⟩ := size_ctx h hsz
      have hz := hz (by omega)
      simp only
      by_cases h0 : sz = 0
      · rw [if_pos h0]
        simp only
        rw [hz.1 h0, mem_bump_zero _ _ (view_pos_le h)]
        exact ⟨hi, hm, hv⟩
      · rw [if_neg h0]
        obtain ⟨i2, v2, m2⟩ := hbump sz (Nat.le_refl _)
        have hpl := view_pos_le h
        have hav : b.view.avail = b.remaining := h.view_avail
        have hpos2 : (b1.bump sz).view.cur.pos = b.view.cur.pos + sz := by
          rw [v2]; unfold Pegtl.bump; simp only [bumpScan_pos]
        have hend2 : (b1.bump sz).view.endp = b.view.endp := by
          rw [v2]; unfold Pegtl.bump markOob; split <;> rfl
        have hav2 : (b1.bump sz).view.avail = b.view.avail - sz := by
          unfold St.avail; rw [hpos2, hend2]; omega
        have hrem2 : (b1.bump sz).remaining < fuel := by
          rw [← i2.view_avail, hav2]; omega
        have := ih (b1.bump sz) i2 hrem2
        revert this
        rcases everythingLoop fuel (b1.bump sz) with ⟨o3, b3⟩
        cases o3 with
        | overflow => intro h3; exact h3
        | done =>
          intro h3
          obtain ⟨i3, m3, v3⟩ := h3
          refine ⟨i3, m3.trans m2, ?_⟩
          rw [v3, m2, hav2, v2, mem_bump_add]
          · congr 1; omega
          · have hdef : b.view.avail = b.view.endp - b.view.cur.pos := rfl
            omega

theorem AtomSim.mk_done {b b' : Buffer} {r : Bool} {mem : Bool × St} (hi : Inv b') (hm : b'.memCtx = b.memCtx)
    (he : mem = (r, b'.view)) : AtomSim b (.done, r, b') mem := ⟨hi, hm, he⟩

theorem AtomSim.mk_ovf {b b' : Buffer} {r : Bool} {mem : Bool × St} (hi : Inv b') : AtomSim b (.overflow, r, b') mem := hi

/-- After a `size( n )` that did not overflow at least `min n avail` bytes are buffered. -/
theorem size_min {b b' : Buffer} {n sz : Nat} (h : Inv b) (hs : b.size n = (.done, sz, b')) : sz ≥ min n b.view.avail := by
  unfold Buffer.size at hs
  simp only [Prod.mk.injEq] at hs
  obtain ⟨h1, h2, h3⟩ := hs
  have hr : b.require n = (.done, b') := by rw [← h1, ← h3]
  obtain ⟨_, _, hmin, _, _⟩ := require_done h hr
  rw [h.view_avail, ← h2, h3]
  exact hmin

/-- The counting loop of `rep_one_min_max` over the buffer counts the leading `c`s of the stream bytes at the logical position. -/
theorem countBuf_eq (b : Buffer) (c : UInt8) (h : Inv b) : ∀ (k i : Nat), i + k ≤ b.occupied →
    countBuf b c k i = (((b.stream.toList.drop (b.view.cur.pos + i)).take k).takeWhile (· == c)).length := by
  intro k
  induction k with
  | zero => intro i _; simp [countBuf]
  | succ k ih =>
    intro i hik
    have hwb : b.peek i = b.memCtx.inp.getD (b.view.cur.pos + i) 0 := window_bytes h i (by omega)
    have hle := h.occupied_le
    have hlt : b.view.cur.pos + i < b.stream.toList.length := by
      have hbe := h.byte_eq
      unfold Buffer.remaining Buffer.logicalPos at hle
      show b.cur.byte + i < b.stream.toList.length
      simp only [Array.length_toList]
      omega
    have hd : b.stream.toList.drop (b.view.cur.pos + i) =
        b.stream.toList[b.view.cur.pos + i] :: b.stream.toList.drop (b.view.cur.pos + i + 1) :=
      List.drop_eq_getElem_cons hlt
    have hget : b.memCtx.inp.getD (b.view.cur.pos + i) 0 = b.stream.toList[b.view.cur.pos + i] := by
      show b.stream.getD (b.view.cur.pos + i) 0 = _
      simp only [Array.length_toList] at hlt
      simp [Array.getD, hlt]
    simp only [countBuf]
    rw [hd, List.take_succ_cons, hwb, hget, ih (i + 1) (by omega), Nat.add_assoc]
    generalize b.stream.toList[b.view.cur.pos + i] = x
    rw [List.takeWhile_cons]
    cases hx : (x == c) <;> simp

/-! ### `peek_utf8` over the buffer -/

theorem window_length (b : Buffer) (n : Nat) : (b.window n).length = n := by simp [Buffer.window]

theorem window_getD (b : Buffer) (n i : Nat) (hi : i < n) : (b.window n).getD i 0 = b.peek i := by
  simp [Buffer.window, List.getD_eq_getElem?_getD, hi]

/-- The window of the memory input over the whole stream is the rest of the stream. -/
theorem windowBytes_eq (b : Buffer) : windowBytes b.memCtx b.view = b.stream.toList.drop b.view.cur.pos := by
  unfold windowBytes
  apply List.take_of_length_le
  show (b.stream.toList.drop b.view.cur.pos).length ≤ b.stream.size - b.view.cur.pos
  simp

theorem windowBytes_length (b : Buffer) : (windowBytes b.memCtx b.view).length = b.view.avail := by
  rw [windowBytes_eq]
  show _ = b.stream.size - b.view.cur.pos
  simp

theorem windowBytes_getD (b : Buffer) (i : Nat) : (windowBytes b.memCtx b.view).getD i 0 = b.memCtx.inp.getD (b.view.cur.pos + i) 0 := by
  rw [windowBytes_eq]
  show _ = b.stream.getD (b.view.cur.pos + i) 0
  simp [List.getD_eq_getElem?_getD, Array.getD_eq_getD_getElem?]

/-- `peek_impl` looks at its byte list only through the comparison of its length with the amount it asked for and, when
    that many bytes are there, through those bytes. -/
theorem peekImpl_congr (bs bs' : List UInt8) (c0 : Nat)
    (hl : bs.length ≥ utfNeed c0 ↔ bs'.length ≥ utfNeed c0)
    (hb : bs.length ≥ utfNeed c0 → ∀ i, i < utfNeed c0 → bs.getD i 0 = bs'.getD i 0) :
    Utf.peekUtf8Impl bs c0 = Utf.peekUtf8Impl bs' c0 := by
  unfold Utf.peekUtf8Impl
  unfold utfNeed at hl hb
  by_cases h1 : c0 &&& 0xE0 = 0xC0
  · rw [if_pos h1] at hl hb
    rw [if_pos h1, if_pos h1]
    by_cases hge : bs.length ≥ 2
    · rw [if_pos hge, if_pos (hl.1 hge)]; simp only [hb hge 1 (by omega)]
    · rw [if_neg hge, if_neg (fun x => hge (hl.2 x))]
  · rw [if_neg h1] at hl hb
    rw [if_neg h1, if_neg h1]
    by_cases h2 : c0 &&& 0xF0 = 0xE0
    · rw [if_pos h2] at hl hb
      rw [if_pos h2, if_pos h2]
      by_cases hge : bs.length ≥ 3
      · rw [if_pos hge, if_pos (hl.1 hge)]; simp only [hb hge 1 (by omega), hb hge 2 (by omega)]
      · rw [if_neg hge, if_neg (fun x => hge (hl.2 x))]
    · rw [if_neg h2] at hl hb
      rw [if_neg h2, if_neg h2]
      by_cases h3 : c0 &&& 0xF8 = 0xF0
      · rw [if_pos h3] at hl hb
        rw [if_pos h3, if_pos h3]
        by_cases hge : bs.length ≥ 4
        · rw [if_pos hge, if_pos (hl.1 hge)]; simp only [hb hge 1 (by omega), hb hge 2 (by omega), hb hge 3 (by omega)]
        · rw [if_neg hge, if_neg (fun x => hge (hl.2 x))]
      · rw [if_neg h3, if_neg h3]

theorem peekImpl_none (bs : List UInt8) (c0 : Nat) (h0 : utfNeed c0 = 0) : Utf.peekUtf8Impl bs c0 = none := by
  unfold utfNeed at h0
  unfold Utf.peekUtf8Impl
  split at h0
  · cases h0
  · split at h0
    · cases h0
    · split at h0
      · cases h0
      · rename_i h1 h2 h3
        rw [if_neg h1, if_neg h2, if_neg h3]

/-- A sequence that `peek_impl` decodes lies within the bytes it was given. -/
theorem peekImpl_some (bs : List UInt8) (c0 cp n : Nat) (h : Utf.peekUtf8Impl bs c0 = some (cp, n)) : n ≤ bs.length := by
  unfold Utf.peekUtf8Impl at h
  simp only at h
  repeat' split at h
  all_goals (cases h <;> omega)

/-- `peek_utf8::peek( in )` over the buffer: `overflow_error`, or exactly what it returns over the memory input, the
    decoded sequence lying within the buffered bytes. -/
theorem peekUtf8_sim (b : Buffer) (h : Inv b) :
    match peekUtf8Buf b with
    | (.overflow, _, b') => Inv b'
    | (.done, r, b') => Inv b' ∧ b'.memCtx = b.memCtx ∧ b'.view = b.view ∧
        r = Utf.peekUtf8 (windowBytes b.memCtx b.view) ∧ (∀ cp n, r = some (cp, n) → n ≤ b'.occupied) := by
  unfold peekUtf8Buf
  rcases he : b.empty with ⟨o, e, b1⟩
  cases o with
  | overflow => simp only; rw [(empty_overflow h he).1]; exact h
  | done =>
    obtain ⟨hi, hs, hev, hocc⟩ := empty_done h he
    have hW : windowBytes b.memCtx b.view = windowBytes b1.memCtx b1.view := by rw [hs.memCtx, hs.view]
    have hWl := windowBytes_length b1
    cases e with
    | true =>
      simp only
      refine ⟨hi, hs.memCtx, hs.view, ?_, by intro _ _ hh; cases hh⟩
      have h0 : b1.view.avail = 0 := by
        have : b.view.empty = true := hev.symm
        rw [hs.view]
        unfold St.empty at this
        unfold St.avail
        rw [← hs.view] at this ⊢
        have := beq_iff_eq.1 this
        omega
      rw [hW]
      have : windowBytes b1.memCtx b1.view = [] := List.eq_nil_of_length_eq_zero (by rw [hWl, h0])
      rw [this]; rfl
    | false =>
      simp only
      have h1 := hocc rfl
      have hle1 := hi.occupied_le
      have hav1 := hi.view_avail
      have hp0 : (windowBytes b1.memCtx b1.view).getD 0 0 = b1.peek 0 := by
        rw [windowBytes_getD]; exact (window_bytes hi 0 (by omega)).symm
      rw [hW]
      rcases hWe : windowBytes b1.memCtx b1.view with _ | ⟨w0, wt⟩
      · rw [hWe] at hWl; simp at hWl; omega
      rw [hWe] at hp0
      have hw0 : w0 = b1.peek 0 := by simpa using hp0
      unfold Utf.peekUtf8
      simp only
      rw [hw0]
      by_cases hc : (b1.peek 0).toNat &&& 0x80 = 0
      · rw [if_pos hc, if_pos hc]
        exact ⟨hi, hs.memCtx, hs.view, rfl, by intro cp n hh; simp only [Option.some.injEq, Prod.mk.injEq] at hh; omega⟩
      · rw [if_neg hc, if_neg hc]
        by_cases hn : utfNeed (b1.peek 0).toNat = 0
        · rw [if_pos hn]
          exact ⟨hi, hs.memCtx, hs.view, (peekImpl_none _ _ hn).symm, by intro _ _ hh; cases hh⟩
        · rw [if_neg hn]
          rcases hsz : b1.size (utfNeed (b1.peek 0).toNat) with ⟨o2, sz, b2⟩
          cases o2 with
          | overflow => simp only; rw [(size_overflow hi hsz).1]; exact hi
          | done =>
            obtain ⟨hi2, hm2, hv2, hocc2, hiff, _, _, hrd, _⟩ := size_ctx hi hsz
            simp only
            refine ⟨hi2, hm2.trans hs.memCtx, hv2.trans hs.view, ?_, ?_⟩
            · have hWe' : windowBytes b1.memCtx b1.view = b1.peek 0 :: wt := by rw [hWe, hw0]
              rw [← hWe']
              apply peekImpl_congr
              · rw [window_length, hWl]; exact hiff
              · rw [window_length]
                intro hge i hik
                rw [window_getD _ _ _ (by omega), windowBytes_getD]
                have := hrd i (by omega)
                exact (congrArg Prod.fst this).symm
            · intro cp n hh
              have := peekImpl_some _ _ _ _ hh
              rw [window_length] at this
              omega

/-- Every atom's `match( in )` over the buffer, from any invariant state and whatever the reader's
    schedule: `overflow_error`, or exactly the result and position of the same atom over the memory input. -/
theorem atom_sim (a : Atom) (b : Buffer) (h : Inv b) (ha : a.overBuffer = true) :
    AtomSim b (atomStepBuf a b) (atomStep b.memCtx a b.view) := by
  have hE : b.memCtx.eol = b.eol := rfl
  cases a with
  | utf8Range found lo hi =>
    simp only [atomStepBuf, atomStep, hE]
    have := peekUtf8_sim b h
    revert this
    rcases peekUtf8Buf b with ⟨o, r, b1⟩
    cases o with
    | overflow => intro hh; exact AtomSim.mk_ovf hh
    | done =>
      intro hh
      obtain ⟨hi1, hm, hv, hr, hn⟩ := hh
      rw [← hr]
      cases r with
      | none => exact AtomSim.mk_done hi1 hm (by rw [hv])
      | some p =>
        obtain ⟨cp, n⟩ := p
        simp only
        have he1 : b1.eol = b.eol := congrArg Ctx.eol hm
        rw [he1]
        by_cases hc : (decide (lo ≤ cp ∧ cp ≤ hi) == found) = true
        · rw [if_pos hc, if_pos hc]
          obtain ⟨i2, v2, m2⟩ := bumpHelp_spec b1 ((Atom.utf8Range found lo hi).testAny b.eol.ch) n hi1 (hn cp n rfl)
          exact AtomSim.mk_done i2 (m2.trans hm) (by rw [v2, hm, hv])
        · rw [if_neg hc, if_neg hc]
          exact AtomSim.mk_done hi1 hm (by rw [hv])
  | maxDigits mx => cases ha
  | repOne lo hi c =>
    simp only [atomStepBuf, atomStep, hE]
    rcases hsz : b.size (hi + 1) with ⟨o, sz, b1⟩
    cases o with
    | overflow => exact AtomSim.mk_ovf (by rw [(size_overflow h hsz).1]; exact h)
    | done =>
      obtain ⟨hi1, hm, hv, hocc, _, hle, _, _, _, hbh, _⟩ := size_ctx h hsz
      have hmin := size_min h hsz
      have he1 : b1.eol = b.eol := congrArg Ctx.eol hm
      have hst : b1.stream = b.stream := congrArg Ctx.inp hm
      have hcnt := countBuf_eq b1 c hi1 sz 0 (by omega)
      rw [hst, hv, Nat.add_zero] at hcnt
      have hwin : windowBytes b.memCtx b.view = b.stream.toList.drop b.view.cur.pos := by
        unfold windowBytes
        apply List.take_of_length_le
        show (b.stream.toList.drop b.view.cur.pos).length ≤ b.stream.size - b.view.cur.pos
        simp
      have hLl : (b.stream.toList.drop b.view.cur.pos).length = b.view.avail := by
        show _ = b.stream.size - b.view.cur.pos
        simp
      generalize b.stream.toList.drop b.view.cur.pos = L at hcnt hwin hLl
      have e1 : ∀ k, ((L.take k).takeWhile (· == c)).length = min k (L.takeWhile (· == c)).length := by
        intro k; rw [← List.take_takeWhile, List.length_take]
      have hT : (L.takeWhile (· == c)).length ≤ b.view.avail := by
        rw [← hLl]; exact (List.takeWhile_sublist _).length_le
      simp only
      rw [he1, hcnt, hwin, e1, e1, List.length_take, hLl]
      generalize (L.takeWhile (· == c)).length = T at hT
      by_cases hlo : sz < lo
      · rw [if_pos hlo]
        split
        · exact AtomSim.mk_done hi1 hm (by rw [hv])
        · split
          · omega
          · exact AtomSim.mk_done hi1 hm (by rw [hv])
      · rw [if_neg hlo]
        by_cases hc : lo ≤ min sz T ∧ min sz T ≤ hi
        · rw [if_pos hc]
          have hk : min sz T ≤ sz := Nat.min_le_left _ _
          obtain ⟨i2, v2, m2⟩ := hbh (min sz T) ((Atom.repOne lo hi c).testAny b.eol.ch) hk
          have heq : min (hi + 1) T = min sz T := by omega
          rw [if_neg (by omega), heq, if_pos hc]
          exact AtomSim.mk_done i2 m2 (by rw [v2])
        · rw [if_neg hc]
          split
          · exact AtomSim.mk_done hi1 hm (by rw [hv])
          · split
            · omega
            · exact AtomSim.mk_done hi1 hm (by rw [hv])
  | any =>
    simp only [atomStepBuf, atomStep]
    rcases he : b.empty with ⟨o, e, b1⟩
    cases o with
    | overflow => exact AtomSim.mk_ovf (by rw [(empty_overflow h he).1]; exact h)
    | done =>
      obtain ⟨hi, hs, hev, hocc⟩ := empty_done h he
      cases e with
      | true => rw [← hev]; exact AtomSim.mk_done hi hs.memCtx (by simp [hs.view])
      | false =>
        rw [← hev]
        obtain ⟨i2, v2, _⟩ := bump_spec b1 1 hi (hocc rfl)
        exact AtomSim.mk_done i2 hs.memCtx (by simp [v2, hs.view, hs.memCtx])
  | one found cs => simp only [atomStepBuf, atomStep, hE]; exact peekOne_sim b _ _ h
  | range found lo hi => simp only [atomStepBuf, atomStep, hE]; exact peekOne_sim b _ _ h
  | ranges rs single => simp only [atomStepBuf, atomStep, hE]; exact peekOne_sim b _ _ h
  | string cs =>
    simp only [atomStepBuf, atomStep, hE]
    rcases hsz : b.size cs.length with ⟨o, sz, b1⟩
    cases o with
    | overflow => exact AtomSim.mk_ovf (by rw [(size_overflow h hsz).1]; exact h)
    | done =>
      obtain ⟨hi, hm, hv, hocc, hiff, hle, _, _, _, hbh, _⟩ := size_ctx h hsz
      have he1 : b1.eol = b.eol := congrArg Ctx.eol hm
      simp only
      rw [he1]
      by_cases hge : sz ≥ cs.length
      · rw [if_pos hge, if_pos (hiff.1 hge)]
        have hcmp := cmpBuf_eq b1 (· == ·) hi cs 0 (by omega)
        rw [hm, hv, Nat.add_zero] at hcmp
        rw [hcmp]
        by_cases hc : cmpBytes b.memCtx (· == ·) b.view.cur.pos cs = true
        · rw [if_pos hc, if_pos hc]
          obtain ⟨i2, v2, m2⟩ := hbh cs.length ((Atom.string cs).testAny b.eol.ch) hge
          exact AtomSim.mk_done i2 m2 (by rw [v2])
        · rw [if_neg hc, if_neg hc]
          exact AtomSim.mk_done hi hm (by rw [hv])
      · rw [if_neg hge, if_neg (fun hh => hge (hiff.2 hh))]
        exact AtomSim.mk_done hi hm (by rw [hv])
  | istring cs =>
    simp only [atomStepBuf, atomStep, hE]
    rcases hsz : b.size cs.length with ⟨o, sz, b1⟩
    cases o with
    | overflow => exact AtomSim.mk_ovf (by rw [(size_overflow h hsz).1]; exact h)
    | done =>
      obtain ⟨hi, hm, hv, hocc, hiff, hle, _, _, _, hbh, _⟩ := size_ctx h hsz
      have he1 : b1.eol = b.eol := congrArg Ctx.eol hm
      simp only
      rw [he1]
      by_cases hge : sz ≥ cs.length
      · rw [if_pos hge, if_pos (hiff.1 hge)]
        have hcmp := cmpBuf_eq b1 icharEqual hi cs 0 (by omega)
        rw [hm, hv, Nat.add_zero] at hcmp
        rw [hcmp]
        by_cases hc : cmpBytes b.memCtx icharEqual b.view.cur.pos cs = true
        · rw [if_pos hc, if_pos hc]
          obtain ⟨i2, v2, m2⟩ := hbh cs.length ((Atom.istring cs).testAny b.eol.ch) hge
          exact AtomSim.mk_done i2 m2 (by rw [v2])
        · rw [if_neg hc, if_neg hc]
          exact AtomSim.mk_done hi hm (by rw [hv])
      · rw [if_neg hge, if_neg (fun hh => hge (hiff.2 hh))]
        exact AtomSim.mk_done hi hm (by rw [hv])
  | bytes n =>
    simp only [atomStepBuf, atomStep]
    rcases hsz : b.size n with ⟨o, sz, b1⟩
    cases o with
    | overflow => exact AtomSim.mk_ovf (by rw [(size_overflow h hsz).1]; exact h)
    | done =>
      obtain ⟨hi, hm, hv, hocc, hiff, hle, _, _, _, _, hbump⟩ := size_ctx h hsz
      simp only
      by_cases hge : sz ≥ n
      · rw [if_pos hge, if_pos (hiff.1 hge)]
        obtain ⟨i2, v2, m2⟩ := hbump n hge
        exact AtomSim.mk_done i2 m2 (by rw [v2])
      · rw [if_neg hge, if_neg (fun hh => hge (hiff.2 hh))]
        exact AtomSim.mk_done hi hm (by rw [hv])
  | eof =>
    simp only [atomStepBuf, atomStep]
    rcases he : b.empty with ⟨o, e, b1⟩
    cases o with
    | overflow => exact AtomSim.mk_ovf (by rw [(empty_overflow h he).1]; exact h)
    | done =>
      obtain ⟨hi, hs, hev, _⟩ := empty_done h he
      exact AtomSim.mk_done hi hs.memCtx (by rw [hev, hs.view])
  | bof =>
    simp only [atomStepBuf, atomStep]
    exact AtomSim.mk_done h rfl (by simp [Buffer.memCtx, Buffer.view])
  | bol => simp only [atomStepBuf, atomStep]; exact AtomSim.mk_done h rfl rfl
  | eol =>
    simp only [atomStepBuf, atomStep]
    have := eolMatch_sim b h
    revert this
    rcases eolMatchBuf b with ⟨o, d, sz, b1⟩
    rcases eolMatch b.memCtx b.view with ⟨d', sz', st'⟩
    cases o with
    | overflow => intro hh; exact AtomSim.mk_ovf hh
    | done => intro hh; obtain ⟨hi, hm, hd, hv, _⟩ := hh; exact AtomSim.mk_done hi hm (by simp only at hd hv; rw [hd, hv])
  | eolf =>
    simp only [atomStepBuf, atomStep]
    have := eolMatch_sim b h
    revert this
    rcases eolMatchBuf b with ⟨o, d, sz, b1⟩
    rcases eolMatch b.memCtx b.view with ⟨d', sz', st'⟩
    cases o with
    | overflow => intro hh; exact AtomSim.mk_ovf hh
    | done =>
      intro hh; obtain ⟨hi, hm, hd, hv, hz⟩ := hh
      simp only at hd hv hz
      refine AtomSim.mk_done hi hm ?_
      rw [hd, hv]
      have : (sz' == 0) = (sz == 0) := by
        by_cases h0 : sz = 0
        · rw [beq_iff_eq.2 h0, beq_iff_eq.2 (hz.1 h0)]
        · rw [beq_eq_false_iff_ne.2 h0, beq_eq_false_iff_ne.2 (fun hh => h0 (hz.2 hh))]
      rw [this]
  | success => simp only [atomStepBuf, atomStep]; exact AtomSim.mk_done h rfl rfl
  | failure => simp only [atomStepBuf, atomStep]; exact AtomSim.mk_done h rfl rfl
  | everything =>
    simp only [atomStepBuf, atomStep]
    have := everything_sim (b.stream.size - b.logicalPos + 1) b h (by unfold Buffer.remaining; omega)
    revert this
    rcases everythingLoop (b.stream.size - b.logicalPos + 1) b with ⟨o, b1⟩
    cases o with
    | overflow => intro hh; exact AtomSim.mk_ovf hh
    | done => intro hh; obtain ⟨hi, hm, hv⟩ := hh; exact AtomSim.mk_done hi hm (by rw [hv])
  | require n =>
    simp only [atomStepBuf, atomStep]
    rcases hsz : b.size n with ⟨o, sz, b1⟩
    cases o with
    | overflow => exact AtomSim.mk_ovf (by rw [(size_overflow h hsz).1]; exact h)
    | done =>
      obtain ⟨hi, hm, hv, _, hiff, _⟩ := size_ctx h hsz
      refine AtomSim.mk_done hi hm ?_
      rw [hv]
      congr 1
      by_cases hge : sz ≥ n
      · simp [hge, hiff.1 hge]
      · have : ¬ b.view.avail ≥ n := fun hh => hge (hiff.2 hh)
        simp [hge, this]

end Buf
end Pegtl
