/-
  Lemmas/SemRun.lean — the refinement theorem for `run`: by induction on fuel, every invocation
  of rule `i` is a derivation of `ref i` in the formalism.
-/
import PegtlVerif.Lemmas.SemBody

namespace Pegtl
open Pegtl.Spec

theorem actionOutcome_plain (cx : Ctx) (i : Nat) (a : AMode) (act : ActionSpec) (saved e : Cursor)
    (h : PlainAct act) :
    actionOutcome cx i a act saved e = .noAction ∨ actionOutcome cx i a act saved e = .accepts := by
  unfold actionOutcome
  have ht : ∀ b e', act.throws i b e' = false := by
    intro b e'; simp [ActionSpec.throws, h.1]
  have hv : ∀ b e', act.vetoes i b e' = false := by
    intro b e'
    rcases h.2.1 with h2 | h2 <;> simp [ActionSpec.vetoes, h2]
  split
  · simp [ht, hv]
  · simp

theorem afterBody_plain_res (cx : Ctx) (i : Nat) (a : AMode) (act : ActionSpec) (sd : Nat) (saved : Cursor) (r : Ret)
    (h : PlainAct act) (hm : cx.msgs = []) : (afterBody cx i a act sd saved r).res = r.res := by
  unfold afterBody
  split
  · rfl
  · rename_i hf; simp [failureHook_plain cx hm, hf]
  · rename_i hok
    simp only
    rcases actionOutcome_plain cx i a act saved r.st.cur h with h1 | h1 <;> simp [h1]

theorem absO_guard (g : RMode) (c : Cursor) (r : Ret) : absO (guardRestore g c r) = absO r := by
  cases hr : r.res with
  | ok => apply absO_congr <;> simp [guardRestore, hr]
  | fail => exact absO_nonok (by simp) (by simp [hr])
  | thr x => exact absO_nonok (by simp) (by simp [hr])

theorem absO_bracket (cx : Ctx) (i : Nat) (a : AMode) (m : RMode) (kc : Nat) (st : St) (r : Ret) :
    absO (bracket cx i a m kc st r) = absO r := absO_congr (by simp) (by simp)

section
variable {cx : Ctx} {rec : Rec} (hg : GoodRec rec) (hs : SRec cx rec)
  (hnf : ∀ j a m env st r, MustLike cx.g j → rec j a m env st = some r → r.res ≠ .fail)
  (wf : WFT cx)
include hg hs hnf wf

theorem nodeCall_sem (k i : Nat) (a : AMode) (m : RMode) (env : Env) (st : St) (r : Ret) (hv : Valid cx st)
    (h : nodeCall cx rec k i a m env st = some r) : SemR cx st.endp (.ref i) st.cur.pos r := by
  unfold nodeCall at h
  split at h
  · exact absurd h (by simp)
  · rename_i nd hn
    have hw : (cx.actOf env i nd).wrap = .none := (wf.plain env i nd hn).2.2
    simp only [hw, Option.map_eq_some_iff] at h
    obtain ⟨r1, h1, rfl⟩ := h
    refine SemR.congr ?_ (absO_bracket ..)
    unfold nodeCore at h1
    split at h1
    · obtain ⟨o, ho, s⟩ := body_sem hg hs hnf wf k i nd hn a m env st r1 hv h1
      exact ⟨o, ho, .ref (Gof_of hn) s⟩
    · simp only [Option.map_eq_some_iff] at h1
      obtain ⟨r0, h0, rfl⟩ := h1
      obtain ⟨o, ho, s⟩ := body_sem hg hs hnf wf k i nd hn a _ env st r0 hv h0
      refine ⟨o, ?_, .ref (Gof_of hn) s⟩
      rw [absO_guard, ← ho]
      apply absO_congr
      · simp [afterBody_plain_res _ _ _ _ _ _ _ (wf.plain env i nd hn) (Ctx.withCtl_msgs_nil wf.nomsgs _)]
      · simp

end

theorem seqAll_nofail {rec : Rec} (a : AMode) (m : RMode) (env : Env) :
    ∀ (cs : List Nat) (st : St) (r : Ret),
      (∀ c ∈ cs, ∀ st' r', rec c a m env st' = some r' → r'.res ≠ .fail) →
      seqAll rec a m env cs st = some r → r.res ≠ .fail := by
  intro cs
  induction cs with
  | nil => intro st r _ h; simp only [seqAll, Option.some.injEq] at h; subst h; simp
  | cons c cs ih =>
    intro st r hc h
    simp only [seqAll] at h
    split at h
    · exact absurd h (by simp)
    · rename_i r1 h1
      split at h
      · split at h
        · exact absurd h (by simp)
        · rename_i r2 h2
          simp only [Option.some.injEq] at h; subst h
          simpa using ih _ _ (fun c' hc' => hc c' (List.mem_cons_of_mem _ hc')) h2
      · simp only [Option.some.injEq] at h; subst h
        exact hc c (List.mem_cons_self) _ _ h1

/-- `internal::must< ... >` nodes never fail locally. -/
theorem run_mustlike_nofail (cx : Ctx) (wf : WFT cx) :
    ∀ n j a m env st r, MustLike cx.g j → run cx n j a m env st = some r → r.res ≠ .fail := by
  intro n
  induction n with
  | zero => intro j a m env st r _ h; simp [run] at h
  | succ n ih =>
    intro j a m env st r hml h
    obtain ⟨nd, hn, hkind⟩ := hml
    simp only [run, nodeCall, hn] at h
    have hbody : ∀ mm r0, body cx (fun i a m env st => run cx n i a m env st) n nd.kind a mm env st = some r0 →
        r0.res ≠ .fail := by
      intro mm r0 h0
      rcases hkind with hk | ⟨c, hk⟩ | ⟨cs, hk, hcs⟩
      · rw [hk] at h0
        simp only [body, atomStep, Option.some.injEq] at h0
        subst h0; simp
      · rw [hk] at h0
        simp only [body] at h0
        split at h0
        · exact absurd h0 (by simp)
        · split at h0
          · simp only [Option.some.injEq] at h0; subst h0; simp
          · rename_i hnf'
            simp only [Option.some.injEq] at h0; subst h0
            intro hf; exact hnf' hf
      · rw [hk] at h0
        have hchild : ∀ c ∈ cs, ∀ mm' st' r', run cx n c a mm' env st' = some r' → r'.res ≠ .fail := by
          intro c hc mm' st' r' hr'
          obtain ⟨ndc, c', hgc, hkc⟩ := hcs c hc
          exact ih c a mm' env st' r' ⟨ndc, hgc, Or.inr (Or.inl ⟨c', hkc⟩)⟩ hr'
        simp only [body] at h0
        split at h0
        · rename_i c
          exact hchild c (by simp) _ _ _ h0
        · simp only [Option.map_eq_some_iff] at h0
          obtain ⟨r1, h1, rfl⟩ := h0
          have := seqAll_nofail (rec := fun i a m env st => run cx n i a m env st) a .optional env cs st r1
            (fun c hc st' r' hr' => hchild c hc _ st' r' hr') h1
          simpa using this
    have hw : (cx.actOf env j nd).wrap = .none := (wf.plain env j nd hn).2.2
    simp only [hw, Option.map_eq_some_iff] at h
    obtain ⟨r1, h1, rfl⟩ := h
    simp only [bracket_res]
    unfold nodeCore at h1
    split at h1
    · exact hbody _ _ h1
    · simp only [Option.map_eq_some_iff] at h1
      obtain ⟨r0, h0, rfl⟩ := h1
      have := hbody _ _ h0
      simp only [guardRestore_res]
      rw [afterBody_plain_res _ _ _ _ _ _ _ (wf.plain env j nd hn) (Ctx.withCtl_msgs_nil wf.nomsgs _)]
      exact this

/-- **Refinement.** Every invocation of the model evaluates `ref i` as the formalism prescribes. -/
theorem run_sem (cx : Ctx) (wf : WFT cx) : ∀ n, SRec cx (run cx n) := by
  intro n
  induction n with
  | zero => intro j a m env st r _ h; simp [run] at h
  | succ n ih =>
    intro j a m env st r hv h
    simp only [run] at h
    exact nodeCall_sem (run_good cx n) ih (run_mustlike_nofail cx wf n) wf n j a m env st r hv h

end Pegtl
