/-
  Lemmas/Tree.lean — the node builder of parse_tree.hpp (a stack machine over hook events) computes
  the declarative "surviving derivation": the tree of invocations, cut at every invocation that did
  not succeed, with unselected rules contracted (C12).
-/
import PegtlVerif.Model.Tree
import PegtlVerif.Lemmas.RawClosure

namespace Pegtl

/-- One rule invocation with everything that happened inside it. -/
inductive Invoc
  | mk (id : Nat) (a : AMode) (m : RMode) (kc : Nat) (res : Nat) (b e : Cursor) (kids : List Invoc)
  deriving Repr, Inhabited

def Invoc.id : Invoc → Nat | .mk i _ _ _ _ _ _ _ => i
def Invoc.res : Invoc → Nat | .mk _ _ _ _ r _ _ _ => r
def Invoc.b : Invoc → Cursor | .mk _ _ _ _ _ b _ _ => b
def Invoc.e : Invoc → Cursor | .mk _ _ _ _ _ _ e _ => e
def Invoc.kids : Invoc → List Invoc | .mk _ _ _ _ _ _ _ k => k

mutual
/-- The `enter` / `exit` events of an invocation tree, in order. -/
def Invoc.flat : Invoc → List Ev
  | .mk i a m kc res b e kids => Ev.enter i a m b kc :: flatL kids ++ [Ev.exit i res e]
def flatL : List Invoc → List Ev
  | [] => []
  | t :: ts => t.flat ++ flatL ts
end

mutual
/-- **The specification**: the surviving derivation of the selected rules.  An invocation that did
    not return success contributes nothing — whatever succeeded inside it; a successful invocation of
    a selected rule contributes one node spanning what it matched, whose children are the
    contributions of its sub-invocations, in order, passed through the rule's transformer; a
    successful invocation of any other rule contributes the contributions of its sub-invocations. -/
def specT (cls : Nat → Cls) : Invoc → Forest
  | .mk i _ _ _ res b e kids =>
    if res ≠ 1 then []
    else match cls i with
      | .sel s => transformNode s ⟨i, b, e, true⟩ (specL cls kids)
      | _ => specL cls kids
def specL (cls : Nat → Cls) : List Invoc → Forest
  | [] => []
  | t :: ts => specT cls t ++ specL cls ts
end

mutual
/-- No selected rule anywhere in the invocation tree. -/
def noSelT (cls : Nat → Cls) : Invoc → Bool
  | .mk i _ _ _ _ _ _ kids => (match cls i with | .sel _ => false | _ => true) && noSelL cls kids
def noSelL (cls : Nat → Cls) : List Invoc → Bool
  | [] => true
  | t :: ts => noSelT cls t && noSelL cls ts
end

mutual
/-- The leaf optimisation is sound on this invocation tree: below a rule classified `leaf` no selected
    rule is ever invoked. -/
def leafOKT (cls : Nat → Cls) : Invoc → Bool
  | .mk i _ _ _ _ _ _ kids => (match cls i with | .leaf => noSelL cls kids | _ => true) && leafOKL cls kids
def leafOKL (cls : Nat → Cls) : List Invoc → Bool
  | [] => true
  | t :: ts => leafOKT cls t && leafOKL cls ts
end

theorem runTree_append (cls : Nat → Cls) (s : List TFrame) (a b : List Ev) :
    runTree cls s (a ++ b) = (runTree cls s a).bind (fun s' => runTree cls s' b) := by
  induction a generalizing s with
  | nil => rfl
  | cons e es ih =>
    simp only [List.cons_append, runTree]
    cases treeStep cls s e with
    | none => rfl
    | some s' => exact ih s'

mutual
theorem spec_noSelT (cls : Nat → Cls) : ∀ t : Invoc, noSelT cls t = true → specT cls t = []
  | .mk i a m kc res b e kids => by
    intro h
    simp only [noSelT, Bool.and_eq_true] at h
    have hk := spec_noSelL cls kids h.2
    simp only [specT]
    split
    · rfl
    · split
      · rename_i s hs; simp [hs] at h
      · exact hk
theorem spec_noSelL (cls : Nat → Cls) : ∀ ts : List Invoc, noSelL cls ts = true → specL cls ts = []
  | [] => fun _ => rfl
  | t :: ts => by
    intro h
    simp only [noSelL, Bool.and_eq_true] at h
    simp [specL, spec_noSelT cls t h.1, spec_noSelL cls ts h.2]
end

theorem runTree_cons (cls : Nat → Cls) (s : List TFrame) (e : Ev) (l : List Ev) :
    runTree cls s (e :: l) = (treeStep cls s e).bind (fun s' => runTree cls s' l) := by
  simp only [runTree]
  cases treeStep cls s e <;> rfl

theorem runTree_single (cls : Nat → Cls) (s : List TFrame) (e : Ev) : runTree cls s [e] = treeStep cls s e := by
  rw [runTree_cons]
  cases treeStep cls s e <;> rfl

theorem runTree_node (cls : Nat → Cls) (s : List TFrame) (i : Nat) (a : AMode) (m : RMode) (kc : Nat) (b e : Cursor) (res : Nat)
    (kids : List Invoc) :
    runTree cls s (Invoc.mk i a m kc res b e kids).flat =
      (treeStep cls s (.enter i a m b kc)).bind fun s1 =>
        (runTree cls s1 (flatL kids)).bind fun s2 => treeStep cls s2 (.exit i res e) := by
  simp only [Invoc.flat, List.cons_append]
  rw [runTree_cons]
  congr 1
  funext s1
  rw [runTree_append]
  congr 1
  funext s2
  exact runTree_single cls s2 _

mutual
/-- Below no selected rule the machine leaves every frame that existed before untouched. -/
theorem run_noSelT (cls : Nat → Cls) : ∀ (t : Invoc) (f : TFrame) (stk : List TFrame), noSelT cls t = true →
    runTree cls (f :: stk) t.flat = some (f :: stk)
  | .mk i a m kc res b e kids => by
    intro f stk h
    simp only [noSelT, Bool.and_eq_true] at h
    obtain ⟨hc, hk⟩ := h
    rw [runTree_node]
    cases hcls : cls i with
    | sel s => simp [hcls] at hc
    | leaf =>
      have hE : treeStep cls (f :: stk) (.enter i a m b kc) = some (f :: stk) := by simp [treeStep, hcls]
      have hX : treeStep cls (f :: stk) (.exit i res e) = some (f :: stk) := by simp [treeStep, hcls]
      rw [hE]
      simp only [Option.bind_some]
      rw [run_noSelL cls kids f stk hk]
      simpa using hX
    | branch =>
      have hE : treeStep cls (f :: stk) (.enter i a m b kc) = some (⟨b, []⟩ :: f :: stk) := by simp [treeStep, hcls]
      have hX : treeStep cls (⟨b, []⟩ :: f :: stk) (.exit i res e) = some (f :: stk) := by
        simp only [treeStep, hcls]
        split <;> simp
      rw [hE]
      simp only [Option.bind_some]
      rw [run_noSelL cls kids ⟨b, []⟩ (f :: stk) hk]
      simpa using hX
theorem run_noSelL (cls : Nat → Cls) : ∀ (ts : List Invoc) (f : TFrame) (stk : List TFrame), noSelL cls ts = true →
    runTree cls (f :: stk) (flatL ts) = some (f :: stk)
  | [], f, stk => fun _ => rfl
  | t :: ts, f, stk => by
    intro h
    simp only [noSelL, Bool.and_eq_true] at h
    simp only [flatL]
    rw [runTree_append, run_noSelT cls t f stk h.1]
    exact run_noSelL cls ts f stk h.2
end

mutual
/-- **The node builder computes the specification.**  Run on the events of an invocation tree on top
    of any stack, the machine returns to that stack with the specified forest appended to the
    children of the top frame — provided the leaf optimisation is sound on that tree. -/
theorem run_specT (cls : Nat → Cls) : ∀ (t : Invoc) (f : TFrame) (stk : List TFrame), leafOKT cls t = true →
    runTree cls (f :: stk) t.flat = some ({ f with kids := f.kids ++ specT cls t } :: stk)
  | .mk i a m kc res b e kids => by
    intro f stk h
    simp only [leafOKT, Bool.and_eq_true] at h
    obtain ⟨hleaf, hk⟩ := h
    rw [runTree_node]
    cases hcls : cls i with
    | leaf =>
      simp only [hcls] at hleaf
      have hE : treeStep cls (f :: stk) (.enter i a m b kc) = some (f :: stk) := by simp [treeStep, hcls]
      have hX : treeStep cls (f :: stk) (.exit i res e) = some (f :: stk) := by simp [treeStep, hcls]
      rw [hE]
      simp only [Option.bind_some]
      rw [run_noSelL cls kids f stk hleaf]
      simp only [Option.bind_some, hX, specT, hcls, spec_noSelL cls kids hleaf]
      split <;> simp
    | branch =>
      have hE : treeStep cls (f :: stk) (.enter i a m b kc) = some (⟨b, []⟩ :: f :: stk) := by simp [treeStep, hcls]
      rw [hE]
      simp only [Option.bind_some]
      rw [run_specL cls kids ⟨b, []⟩ (f :: stk) hk]
      simp only [Option.bind_some, treeStep, hcls, List.nil_append, specT]
      by_cases hr : res = 1
      · simp [hr]
      · simp [hr]
    | sel s =>
      have hE : treeStep cls (f :: stk) (.enter i a m b kc) = some (⟨b, []⟩ :: f :: stk) := by simp [treeStep, hcls]
      rw [hE]
      simp only [Option.bind_some]
      rw [run_specL cls kids ⟨b, []⟩ (f :: stk) hk]
      simp only [Option.bind_some, treeStep, hcls, List.nil_append, specT]
      by_cases hr : res = 1
      · simp [hr]
      · simp [hr]
theorem run_specL (cls : Nat → Cls) : ∀ (ts : List Invoc) (f : TFrame) (stk : List TFrame), leafOKL cls ts = true →
    runTree cls (f :: stk) (flatL ts) = some ({ f with kids := f.kids ++ specL cls ts } :: stk)
  | [], f, stk => fun _ => by simp [flatL, specL, runTree]
  | t :: ts, f, stk => by
    intro h
    simp only [leafOKL, Bool.and_eq_true] at h
    simp only [flatL, specL]
    rw [runTree_append, run_specT cls t f stk h.1]
    simp only [Option.bind_some]
    rw [run_specL cls ts _ stk h.2]
    simp [List.append_assoc]
end

/-! ### every trace of the model is the event list of an invocation tree -/

def Ev.isEE : Ev → Bool
  | .enter _ _ _ _ _ => true
  | .exit _ _ _ => true
  | _ => false

/-- The `enter` / `exit` events of a trace. -/
def proj (l : List Ev) : List Ev := l.filter Ev.isEE

theorem proj_append (a b : List Ev) : proj (a ++ b) = proj a ++ proj b := by simp [proj]

theorem treeStep_other (cls : Nat → Cls) (s : List TFrame) {e : Ev} (h : e.isEE = false) : treeStep cls s e = some s := by
  cases e <;> simp_all [Ev.isEE, treeStep]

/-- The machine only looks at `enter` / `exit`. -/
theorem runTree_proj (cls : Nat → Cls) : ∀ (l : List Ev) (s : List TFrame), runTree cls s l = runTree cls s (proj l) := by
  intro l
  induction l with
  | nil => intro s; rfl
  | cons e es ih =>
    intro s
    by_cases he : e.isEE = true
    · have : proj (e :: es) = e :: proj es := by simp [proj, he]
      rw [this]
      simp only [runTree]
      cases treeStep cls s e with
      | none => rfl
      | some s' => exact ih s'
    · have he' : e.isEE = false := by simpa using he
      have : proj (e :: es) = proj es := by simp [proj, he']
      rw [this]
      simp only [runTree, treeStep_other cls s he']
      exact ih s

theorem flatL_append (a b : List Invoc) : flatL (a ++ b) = flatL a ++ flatL b := by
  induction a with
  | nil => rfl
  | cons t ts ih => simp [flatL, ih]

/-- The trace segment is the event list of a sequence of complete invocation trees. -/
def Forested (l : List Ev) : Prop := ∃ ts : List Invoc, proj l = flatL ts

theorem Forested_closed : RawClosed Forested where
  nil := ⟨[], rfl⟩
  app := by
    rintro a b ⟨ta, ha⟩ ⟨tb, hb⟩
    exact ⟨ta ++ tb, by rw [proj_append, ha, hb, flatL_append]⟩
  raise := fun _ _ => ⟨[], rfl⟩
  sctor := fun _ => ⟨[], rfl⟩
  ssucc := fun _ _ _ => ⟨[], rfl⟩
  sdtor := fun _ => ⟨[], rfl⟩
  ract := fun _ _ _ _ => ⟨[], rfl⟩

theorem Forested.other {e : Ev} (h : e.isEE = false) : Forested [e] := ⟨[], by simp [proj, h, flatL]⟩

theorem Forested.cons_other {e : Ev} {l : List Ev} (h : e.isEE = false) (hl : Forested l) : Forested (e :: l) := by
  have := Forested_closed.app (Forested.other h) hl
  simpa using this

/-- The trace of one complete invocation: a single tree with the given root. -/
def TreeOf (l : List Ev) (i : Nat) (res : Nat) (b e : Cursor) : Prop :=
  ∃ t : Invoc, proj l = t.flat ∧ t.id = i ∧ t.res = res ∧ t.b = b ∧ t.e = e

theorem TreeOf.forested {l i res b e} (h : TreeOf l i res b e) : Forested l := by
  obtain ⟨t, ht, -⟩ := h
  exact ⟨[t], by simp [flatL, ht]⟩

theorem afterBody_forested (cx : Ctx) (i : Nat) (a : AMode) (act : ActionSpec) (sd : Nat) (saved : Cursor) (r : Ret)
    (h : Forested r.raw) : Forested (afterBody cx i a act sd saved r).raw := by
  have act_other : (actEvent cx i act sd saved r.st.cur).isEE = false := by unfold actEvent; split <;> rfl
  unfold afterBody
  split
  · refine Forested_closed.app h ?_
    split
    · exact Forested.other rfl
    · exact Forested_closed.nil
  · exact failureHook_raw_closed Forested_closed.app (Forested.other rfl) (fun _ => Forested.other rfl) h
  · simp only
    split
    · exact Forested_closed.app h (Forested.other rfl)
    · refine Forested_closed.app (Forested_closed.app h (Forested.other act_other)) ?_
      split
      · exact Forested.other rfl
      · exact Forested_closed.nil
    · exact failureHook_raw_closed Forested_closed.app (Forested.other rfl) (fun _ => Forested.other rfl) (Forested_closed.app h (Forested.other act_other))
    · exact Forested_closed.app h (Forested.cons_other act_other (Forested.other rfl))

def FoRec (rec : Rec) : Prop := ∀ j a m env st r, rec j a m env st = some r → Forested r.raw

theorem nodeCore_forested {rec : Rec} (hrec : FoRec rec) (cx : Ctx) (k i : Nat) (nd : Node) (a : AMode) (m : RMode)
    (env : Env) (st : St) (r : Ret) (h : nodeCore cx rec k i nd a m env st = some r) : Forested r.raw := by
  unfold nodeCore at h
  split at h
  · exact body_raw Forested_closed hrec cx k _ _ _ _ _ _ h
  · simp only [Option.map_eq_some_iff] at h
    obtain ⟨r0, h0, rfl⟩ := h
    have hb := body_raw Forested_closed hrec cx k _ _ _ _ _ _ h0
    simp only [guardRestore_raw]
    exact Forested.cons_other rfl (afterBody_forested _ i a _ _ st.cur r0 hb)

theorem stateScope_forested {cx : Ctx} {o : Nat} {b : Bool} {r : Ret} (h : Forested r.raw) :
    Forested (stateScope cx o b r).raw := by
  unfold stateScope
  simp only [List.cons_append, List.append_assoc]
  refine Forested.cons_other rfl (Forested_closed.app h (Forested_closed.app ?_ (Forested.other rfl)))
  split
  · exact Forested.other rfl
  · exact Forested_closed.nil

/-- Every invocation's trace is one complete invocation tree whose root carries the rule, the result
    and the reported positions of entry and exit. -/
theorem nodeCall_tree {rec : Rec} (hrec : FoRec rec) (cx : Ctx) (k i : Nat) (a : AMode) (m : RMode)
    (env : Env) (st : St) (r : Ret) (h : nodeCall cx rec k i a m env st = some r) :
    TreeOf r.raw i r.res.code (cx.rep st.cur) (cx.rep r.st.cur) := by
  unfold nodeCall at h
  split at h
  · exact absurd h (by simp)
  · rename_i nd _
    simp only [Option.map_eq_some_iff] at h
    obtain ⟨r0, h0, rfl⟩ := h
    have key : Forested r0.raw := by
      split at h0
      · exact nodeCore_forested hrec cx k i nd a m env st r0 h0
      · exact hrec _ _ _ _ _ _ h0
      · exact nodeCore_forested hrec cx k i nd _ m env st r0 h0
      · exact nodeCore_forested hrec cx k i nd _ m env st r0 h0
      · unfold limitDepthCall at h0
        split at h0
        · simp only [Option.some.injEq] at h0; subst h0
          exact Forested.other rfl
        · simp only [Option.map_eq_some_iff] at h0
          obtain ⟨r1, h1, rfl⟩ := h0
          exact nodeCore_forested hrec cx k i nd a m env _ r1 h1
      · unfold limitBytesCall at h0
        simp only [Option.map_eq_some_iff] at h0
        obtain ⟨r1, h1, rfl⟩ := h0
        have q := nodeCore_forested hrec cx k i nd a m env _ r1 h1
        split
        · exact Forested_closed.app q (Forested.other rfl)
        · exact q
      · simp only [Option.map_eq_some_iff] at h0
        obtain ⟨r1, h1, rfl⟩ := h0
        exact stateScope_forested (nodeCore_forested hrec cx k i nd a m _ st r1 h1)
      · simp only [Option.map_eq_some_iff] at h0
        obtain ⟨r1, h1, rfl⟩ := h0
        exact stateScope_forested (hrec _ _ _ _ _ _ h1)
      · exact nodeCore_forested hrec cx k i nd a m _ st r0 h0
    obtain ⟨ts, hts⟩ := key
    refine ⟨.mk i a m env.ctl r0.res.code (cx.rep st.cur) (cx.rep r0.st.cur) ts, ?_, rfl, by simp [Invoc.res], rfl, by simp [Invoc.e]⟩
    simp only [bracket, dropOnFail_raw, dropOnFail_res, Invoc.flat]
    have : proj (Ev.enter i a m (cx.rep st.cur) env.ctl :: r0.raw ++ [Ev.exit i r0.res.code (cx.rep r0.dropOnFail.st.cur)]) =
        Ev.enter i a m (cx.rep st.cur) env.ctl :: proj r0.raw ++ [Ev.exit i r0.res.code (cx.rep r0.dropOnFail.st.cur)] := by
      simp only [proj, List.cons_append, List.filter_cons, List.filter_append, List.filter_nil, Ev.isEE, if_true]
    rw [this, hts]
    simp [Ret.dropOnFail]
    split <;> rfl

theorem run_forested (cx : Ctx) : ∀ n, FoRec (run cx n) := by
  intro n
  induction n with
  | zero => intro j a m env st r h; simp [run] at h
  | succ n ih =>
    intro j a m env st r h
    simp only [run] at h
    exact (nodeCall_tree ih cx n j a m env st r h).forested

theorem run_tree (cx : Ctx) (n i : Nat) (a : AMode) (m : RMode) (env : Env) (st : St) (r : Ret)
    (h : run cx n i a m env st = some r) : TreeOf r.raw i r.res.code (cx.rep st.cur) (cx.rep r.st.cur) := by
  cases n with
  | zero => simp [run] at h
  | succ n =>
    simp only [run] at h
    exact nodeCall_tree (run_forested cx n) cx n i a m env st r h

/-! ### the static leaf classification is sound on every trace of the model -/

mutual
/-- The invocation tree respects the rule table: every invocation directly below an invocation of
    rule `i` is of a rule that `i`'s `match()` can call. -/
def dynT (g : Grammar) : Invoc → Bool
  | .mk i _ _ _ _ _ _ kids => kidsIn (subsOf g i) kids && dynL g kids
def dynL (g : Grammar) : List Invoc → Bool
  | [] => true
  | t :: ts => dynT g t && dynL g ts
def kidsIn (S : List Nat) : List Invoc → Bool
  | [] => true
  | t :: ts => S.contains t.id && kidsIn S ts
end

theorem dynL_append (g : Grammar) (a b : List Invoc) : dynL g (a ++ b) = (dynL g a && dynL g b) := by
  induction a with
  | nil => simp [dynL]
  | cons t ts ih => simp [dynL, ih, Bool.and_assoc]

theorem kidsIn_append (S : List Nat) (a b : List Invoc) : kidsIn S (a ++ b) = (kidsIn S a && kidsIn S b) := by
  induction a with
  | nil => simp [kidsIn]
  | cons t ts ih => simp [kidsIn, ih, Bool.and_assoc]

/-- A trace segment made of complete invocation trees that respect the table, all rooted in `S`. -/
def ForestIn (g : Grammar) (S : List Nat) (l : List Ev) : Prop :=
  ∃ ts : List Invoc, proj l = flatL ts ∧ kidsIn S ts = true ∧ dynL g ts = true

theorem ForestIn_closed (g : Grammar) (S : List Nat) : RawClosedE (fun _ => ForestIn g S) where
  nil := fun _ => ⟨[], rfl, rfl, rfl⟩
  app := by
    rintro env a b ⟨ta, ha, ka, da⟩ ⟨tb, hb, kb, db⟩
    exact ⟨ta ++ tb, by rw [proj_append, ha, hb, flatL_append], by rw [kidsIn_append, ka, kb]; rfl,
      by rw [dynL_append, da, db]; rfl⟩
  raise := fun _ _ _ => ⟨[], rfl, rfl, rfl⟩
  fam := id
  ctlf := id
  scope := by
    rintro env l o ho ⟨ts, hts, k, d⟩
    refine ⟨ts, ?_, k, d⟩
    rcases ho with rfl | ⟨c, rfl⟩
    · simpa [proj, Ev.isEE] using hts
    · simpa [proj, Ev.isEE] using hts

theorem ForestIn.other {g : Grammar} {S : List Nat} {e : Ev} (h : e.isEE = false) : ForestIn g S [e] :=
  ⟨[], by simp [proj, h, flatL], rfl, rfl⟩

theorem ForestIn.cons_other {g : Grammar} {S : List Nat} {e : Ev} {l : List Ev} (h : e.isEE = false)
    (hl : ForestIn g S l) : ForestIn g S (e :: l) := by
  have := (ForestIn_closed g S).app (env := {}) (ForestIn.other h) hl
  simpa using this

theorem ForestIn.app {g : Grammar} {S : List Nat} {a b : List Ev} (ha : ForestIn g S a) (hb : ForestIn g S b) :
    ForestIn g S (a ++ b) := (ForestIn_closed g S).app (env := {}) ha hb

theorem afterBody_forestIn (g : Grammar) (S : List Nat) (cx : Ctx) (i : Nat) (a : AMode) (act : ActionSpec) (sd : Nat)
    (saved : Cursor) (r : Ret) (h : ForestIn g S r.raw) : ForestIn g S (afterBody cx i a act sd saved r).raw := by
  have act_other : (actEvent cx i act sd saved r.st.cur).isEE = false := by unfold actEvent; split <;> rfl
  unfold afterBody
  split
  · refine h.app ?_
    split
    · exact ForestIn.other rfl
    · exact ⟨[], rfl, rfl, rfl⟩
  · exact failureHook_raw_closed ForestIn.app (ForestIn.other rfl) (fun _ => ForestIn.other rfl) h
  · simp only
    split
    · exact h.app (ForestIn.other rfl)
    · refine (h.app (ForestIn.other act_other)).app ?_
      split
      · exact ForestIn.other rfl
      · exact ⟨[], rfl, rfl, rfl⟩
    · exact failureHook_raw_closed ForestIn.app (ForestIn.other rfl) (fun _ => ForestIn.other rfl) (h.app (ForestIn.other act_other))
    · exact h.app (ForestIn.cons_other act_other (ForestIn.other rfl))

/-- No action class with a `match()` of its own is attached anywhere (parse_tree grammars: such a
    class re-enters the control or replaces the states, which `parse_tree::parse` does not support). -/
def NoWraps (cx : Ctx) : Prop := ∀ env i nd, cx.g[i]? = some nd → (cx.actOf env i nd).wrap = .none

/-- One complete invocation tree with the given root that respects the table. -/
def DynTreeOf (g : Grammar) (l : List Ev) (i : Nat) (res : Nat) (b e : Cursor) : Prop :=
  ∃ t : Invoc, proj l = t.flat ∧ t.id = i ∧ t.res = res ∧ t.b = b ∧ t.e = e ∧ dynT g t = true

def DynRec (g : Grammar) (cx : Ctx) (rec : Rec) : Prop :=
  ∀ j a m env st r, rec j a m env st = some r → DynTreeOf g r.raw j r.res.code (cx.rep st.cur) (cx.rep r.st.cur)

theorem DynTreeOf.forestIn {g : Grammar} {l i res b e} {S : List Nat} (h : DynTreeOf g l i res b e) (hi : i ∈ S) :
    ForestIn g S l := by
  obtain ⟨t, ht, hid, -, -, -, hd⟩ := h
  refine ⟨[t], by simp [flatL, ht], ?_, by simp [dynL, hd]⟩
  simp [kidsIn, hid, hi]

theorem nodeCall_dyn {rec : Rec} (cx : Ctx) (hnw : NoWraps cx) (hrec : DynRec cx.g cx rec) (k i : Nat) (a : AMode) (m : RMode)
    (env : Env) (st : St) (r : Ret) (h : nodeCall cx rec k i a m env st = some r) :
    DynTreeOf cx.g r.raw i r.res.code (cx.rep st.cur) (cx.rep r.st.cur) := by
  unfold nodeCall at h
  split at h
  · exact absurd h (by simp)
  · rename_i nd hn
    simp only [hnw env i nd hn, Option.map_eq_some_iff] at h
    obtain ⟨r0, h0, rfl⟩ := h
    have hS : subsOf cx.g i = nd.kind.calls := by simp [subsOf, hn]
    have hb : ∀ mm r1, body cx rec k nd.kind a mm env st = some r1 → ForestIn cx.g nd.kind.calls r1.raw := by
      intro mm r1 h1
      exact body_rawS (ForestIn_closed cx.g nd.kind.calls) cx k nd.kind a
        (fun j hj m env st r hr => (hrec j a m env st r hr).forestIn hj)
        (fun j hj m env st r hr => (hrec j .nothing m env st r hr).forestIn hj)
        (fun _ j hj m env st r hr => (hrec j .action m env st r hr).forestIn hj) mm env
        (fun _ acts b e => runActs_raw (Q := ForestIn cx.g nd.kind.calls) ⟨[], rfl, rfl, rfl⟩ ForestIn.app cx env.sd b e
          (fun _ => ForestIn.other rfl) acts) st r1 h1
    have key : ForestIn cx.g nd.kind.calls r0.raw := by
      unfold nodeCore at h0
      split at h0
      · exact hb _ _ h0
      · simp only [Option.map_eq_some_iff] at h0
        obtain ⟨r1, h1, rfl⟩ := h0
        simp only [guardRestore_raw]
        exact ForestIn.cons_other rfl (afterBody_forestIn _ _ _ i a _ _ st.cur r1 (hb _ _ h1))
    obtain ⟨ts, hts, hk, hd⟩ := key
    refine ⟨.mk i a m env.ctl r0.res.code (cx.rep st.cur) (cx.rep r0.st.cur) ts, ?_, rfl, by simp [Invoc.res], rfl, by simp [Invoc.e], ?_⟩
    · simp only [bracket, dropOnFail_raw, dropOnFail_res, Invoc.flat]
      have : proj (Ev.enter i a m (cx.rep st.cur) env.ctl :: r0.raw ++ [Ev.exit i r0.res.code (cx.rep r0.dropOnFail.st.cur)]) =
          Ev.enter i a m (cx.rep st.cur) env.ctl :: proj r0.raw ++ [Ev.exit i r0.res.code (cx.rep r0.dropOnFail.st.cur)] := by
        simp only [proj, List.cons_append, List.filter_cons, List.filter_append, List.filter_nil, Ev.isEE, if_true]
      rw [this, hts]
      simp [Ret.dropOnFail]
      split <;> rfl
    · simp [dynT, hS, hk, hd]

theorem run_dyn (cx : Ctx) (hnw : NoWraps cx) : ∀ n, DynRec cx.g cx (run cx n) := by
  intro n
  induction n with
  | zero => intro j a m env st r h; simp [run] at h
  | succ n ih =>
    intro j a m env st r h
    simp only [run] at h
    exact nodeCall_dyn cx hnw ih n j a m env st r h

theorem kidsIn_nil_of (ts : List Invoc) (h : kidsIn [] ts = true) : ts = [] := by
  cases ts with
  | nil => rfl
  | cons t ts => simp [kidsIn] at h

theorem cls_not_sel_of_none {g : Grammar} {selMap : Nat → Option Sel} {j : Nat} (h : selOf g selMap j = none) :
    ∀ s, clsOf g selMap j ≠ .sel s := by
  intro s
  simp only [clsOf, h]
  split <;> simp

mutual
/-- `is_leaf< L, subs >` holds, the tree respects the table: nothing selected below. -/
theorem noSel_of_leafT (g : Grammar) (selMap : Nat → Option Sel) :
    ∀ (L : Nat) (t : Invoc), dynT g t = true → (selOf g selMap t.id).isNone = true →
      isLeaf g selMap L (subsOf g t.id) = true → noSelT (clsOf g selMap) t = true
  | L, .mk i a m kc res b e kids => by
    intro hd hs hl
    simp only [dynT, Bool.and_eq_true] at hd
    simp only [Invoc.id] at hs hl
    simp only [noSelT, Bool.and_eq_true]
    refine ⟨?_, ?_⟩
    · have := cls_not_sel_of_none (g := g) (selMap := selMap) (j := i) (by simpa using hs)
      cases hc : clsOf g selMap i with
      | sel s => exact absurd hc (this s)
      | branch => rfl
      | leaf => rfl
    · exact noSel_of_leafL g selMap L (subsOf g i) kids hd.1 hd.2 hl
theorem noSel_of_leafL (g : Grammar) (selMap : Nat → Option Sel) :
    ∀ (L : Nat) (S : List Nat) (ts : List Invoc), kidsIn S ts = true → dynL g ts = true →
      isLeaf g selMap L S = true → noSelL (clsOf g selMap) ts = true
  | _, _, [] => fun _ _ _ => rfl
  | 0, S, t :: ts => by
    intro hk _ hl
    simp only [isLeaf, List.isEmpty_iff] at hl
    subst hl
    simp [kidsIn] at hk
  | L + 1, S, t :: ts => by
    intro hk hd hl
    simp only [kidsIn, Bool.and_eq_true] at hk
    simp only [dynL, Bool.and_eq_true] at hd
    have hmem : t.id ∈ S := by simpa using hk.1
    have hall := hl
    simp only [isLeaf, List.all_eq_true, Bool.and_eq_true] at hall
    obtain ⟨hs, hl'⟩ := hall t.id hmem
    simp only [noSelL, Bool.and_eq_true]
    exact ⟨noSel_of_leafT g selMap L t hd.1 hs hl', noSel_of_leafL g selMap (L + 1) S ts hk.2 hd.2 hl⟩
end

mutual
/-- The side condition of `run_specT` holds for the static classification on every tree that
    respects the table. -/
theorem leafOK_of_dynT (g : Grammar) (selMap : Nat → Option Sel) : ∀ t : Invoc, dynT g t = true →
    leafOKT (clsOf g selMap) t = true
  | .mk i a m kc res b e kids => by
    intro hd
    simp only [dynT, Bool.and_eq_true] at hd
    simp only [leafOKT, Bool.and_eq_true]
    refine ⟨?_, leafOK_of_dynL g selMap kids hd.2⟩
    cases hc : clsOf g selMap i with
    | sel s => rfl
    | branch => rfl
    | leaf =>
      simp only
      -- `leaf` means: not selected and is_leaf< 8 >
      have hsel : selOf g selMap i = none ∧ isLeaf g selMap 8 (subsOf g i) = true := by
        simp only [clsOf] at hc
        split at hc
        · simp at hc
        · rename_i hn
          split at hc
          · rename_i hl; exact ⟨hn, hl⟩
          · simp at hc
      exact noSel_of_leafL g selMap 8 (subsOf g i) kids hd.1 hd.2 hsel.2
theorem leafOK_of_dynL (g : Grammar) (selMap : Nat → Option Sel) : ∀ ts : List Invoc, dynL g ts = true →
    leafOKL (clsOf g selMap) ts = true
  | [] => fun _ => rfl
  | t :: ts => by
    intro hd
    simp only [dynL, Bool.and_eq_true] at hd
    simp [leafOKL, leafOK_of_dynT g selMap t hd.1, leafOK_of_dynL g selMap ts hd.2]
end

/-- Two classifications that select the same rules with the same transformers. -/
def SameSel (c1 c2 : Nat → Cls) : Prop :=
  ∀ j, (∀ s, c1 j = .sel s ↔ c2 j = .sel s)

mutual
/-- The specification depends on the classification only through which rules are selected. -/
theorem specT_sameSel (c1 c2 : Nat → Cls) (h : SameSel c1 c2) : ∀ t : Invoc, specT c1 t = specT c2 t
  | .mk i a m kc res b e kids => by
    simp only [specT]
    rw [specL_sameSel c1 c2 h kids]
    split
    · rfl
    · cases h1 : c1 i with
      | sel s =>
        have := (h i s).mp h1
        simp [this]
      | branch =>
        cases h2 : c2 i with
        | sel s => have := (h i s).mpr h2; rw [h1] at this; exact absurd this (by simp)
        | branch => rfl
        | leaf => rfl
      | leaf =>
        cases h2 : c2 i with
        | sel s => have := (h i s).mpr h2; rw [h1] at this; exact absurd this (by simp)
        | branch => rfl
        | leaf => rfl
theorem specL_sameSel (c1 c2 : Nat → Cls) (h : SameSel c1 c2) : ∀ ts : List Invoc, specL c1 ts = specL c2 ts
  | [] => rfl
  | t :: ts => by simp [specL, specT_sameSel c1 c2 h t, specL_sameSel c1 c2 h ts]
end

end Pegtl
