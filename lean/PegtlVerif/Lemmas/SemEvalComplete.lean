/-
  Lemmas/SemEvalComplete.lean — the fuel evaluator `semEvalE` is monotone in its fuel and complete for the
  relation `Sem`: whatever the formalism derives, the evaluator returns with enough fuel.  (With
  `semEvalE_sound` and `Sem.det`: `Sem … e p o ↔ ∃ f, semEvalE f … e p = some o`.)
-/
import PegtlVerif.Lemmas.SemDet

namespace Pegtl.Spec

theorem semEvalE_mono {G eol inp} : ∀ f endp e p o,
    semEvalE G eol inp f endp e p = some o → ∀ f', f ≤ f' → semEvalE G eol inp f' endp e p = some o := by
  intro f endp e p
  fun_induction semEvalE G eol inp f endp e p <;> intro o h f' hf
  case case1 => cases h; simp [semEvalE]
  case case2 => cases h; simp [semEvalE]
  case case3 => rename_i hx; cases h; simp [semEvalE, hx]
  case case4 => rename_i hx; cases h; simp [semEvalE, hx]
  case case5 => cases h
  case case6 =>
    rename_i hx ih
    obtain ⟨f'', rfl⟩ : ∃ f'', f' = f'' + 1 := ⟨f' - 1, by omega⟩
    simp only [semEvalE, hx]
    exact ih _ h _ (by omega)
  case case7 => cases h
  case case8 =>
    rename_i hx ih2 ih1
    simp only [semEvalE, ih2 _ hx f' hf]
    exact ih1 _ h f' hf
  case case9 =>
    rename_i hx ih
    have := ih _ h f' hf
    simp only [semEvalE, this]
    cases o with
    | ok q => exact (hx q h).elim
    | fail => rfl
    | err b => rfl
  case case10 =>
    rename_i hx ih2 ih1
    simp only [semEvalE, ih2 _ hx f' hf]
    exact ih1 _ h f' hf
  case case11 =>
    rename_i hx ih
    have := ih _ h f' hf
    simp only [semEvalE, this]
    cases o with
    | ok q => rfl
    | fail => exact (hx h).elim
    | err b => rfl
  case case12 => cases h
  case case13 =>
    rename_i hx ih2 ih1
    obtain ⟨f'', rfl⟩ : ∃ f'', f' = f'' + 1 := ⟨f' - 1, by omega⟩
    simp only [semEvalE, ih2 _ hx f'' (by omega)]
    exact ih1 _ h f'' (by omega)
  case case14 =>
    rename_i hx ih
    obtain ⟨f'', rfl⟩ : ∃ f'', f' = f'' + 1 := ⟨f' - 1, by omega⟩
    cases h
    simp only [semEvalE, ih _ hx f'' (by omega)]
  case case15 =>
    rename_i hx1 hx2 ih
    obtain ⟨f'', rfl⟩ : ∃ f'', f' = f'' + 1 := ⟨f' - 1, by omega⟩
    have := ih _ h f'' (by omega)
    simp only [semEvalE, this]
    cases o with
    | ok q => exact (hx1 q h).elim
    | fail => exact (hx2 h).elim
    | err b => rfl
  case case16 => rename_i hx ih; cases h; simp only [semEvalE, ih _ hx f' hf]
  case case17 =>
    rename_i hx ih
    have := ih _ h f' hf
    simp only [semEvalE, this]
    cases o with
    | ok q => exact (hx q h).elim
    | fail => rfl
    | err b => rfl
  case case18 => rename_i hx ih; cases h; simp only [semEvalE, ih _ hx f' hf]
  case case19 => rename_i hx ih; cases h; simp only [semEvalE, ih _ hx f' hf]
  case case20 =>
    rename_i hx1 hx2 ih
    have := ih _ h f' hf
    simp only [semEvalE, this]
    cases o with
    | ok q => exact (hx1 q h).elim
    | fail => exact (hx2 h).elim
    | err b => rfl
  case case21 => cases h; simp [semEvalE]
  case case22 => rename_i hx ih; cases h; simp only [semEvalE, ih _ hx f' hf]
  case case23 =>
    rename_i hx ih
    have := ih _ h f' hf
    simp only [semEvalE, this]
    cases o with
    | ok q => rfl
    | fail => rfl
    | err b => exact (hx b h).elim
  case case24 => rename_i hx ih; cases h; simp only [semEvalE, ih _ hx f' hf]
  case case25 =>
    rename_i hx ih
    have := ih _ h f' hf
    simp only [semEvalE, this]
    cases o with
    | ok q => rfl
    | fail => rfl
    | err b => exact (hx b h).elim
  case case26 =>
    rename_i hx1 q2 hx2 ih2 ih1
    cases h
    simp only [semEvalE, ih2 _ hx1 f' hf, ih1 _ hx2 f' hf]
  case case27 =>
    rename_i hx1 hx2 ih2 ih1
    have := ih1 _ h f' hf
    simp only [semEvalE, ih2 _ hx1 f' hf, this]
    cases o with
    | ok q => exact (hx2 q h).elim
    | fail => rfl
    | err b => rfl
  case case28 =>
    rename_i hx ih
    have := ih _ h f' hf
    simp only [semEvalE, this]
    cases o with
    | ok q => exact (hx q h).elim
    | fail => rfl
    | err b => rfl

/-- Completeness of the evaluator: every derivable outcome is computed with enough fuel. -/
theorem semEvalE_complete {G eol inp} : ∀ {endp e p o}, Sem G eol inp endp e p o →
    ∃ f, semEvalE G eol inp f endp e p = some o := by
  intro endp e p o h
  induction h with
  | eps => exact ⟨0, by simp [semEvalE]⟩
  | failE => exact ⟨0, by simp [semEvalE]⟩
  | atomOk hx => exact ⟨0, by simp [semEvalE, hx]⟩
  | atomFail hx => exact ⟨0, by simp [semEvalE, hx]⟩
  | ref hg _ ih =>
    obtain ⟨f, hf⟩ := ih
    exact ⟨f + 1, by simp only [semEvalE, hg]; exact hf⟩
  | seqOk _ _ ih1 ih2 =>
    obtain ⟨f1, h1⟩ := ih1
    obtain ⟨f2, h2⟩ := ih2
    refine ⟨max f1 f2, ?_⟩
    simp only [semEvalE, semEvalE_mono _ _ _ _ _ h1 (max f1 f2) (Nat.le_max_left _ _)]
    exact semEvalE_mono _ _ _ _ _ h2 _ (Nat.le_max_right _ _)
  | seqFail _ ih => obtain ⟨f, hf⟩ := ih; exact ⟨f, by simp only [semEvalE, hf]⟩
  | seqErr _ ih => obtain ⟨f, hf⟩ := ih; exact ⟨f, by simp only [semEvalE, hf]⟩
  | altOk _ ih => obtain ⟨f, hf⟩ := ih; exact ⟨f, by simp only [semEvalE, hf]⟩
  | altErr _ ih => obtain ⟨f, hf⟩ := ih; exact ⟨f, by simp only [semEvalE, hf]⟩
  | altFail _ _ ih1 ih2 =>
    obtain ⟨f1, h1⟩ := ih1
    obtain ⟨f2, h2⟩ := ih2
    refine ⟨max f1 f2, ?_⟩
    simp only [semEvalE, semEvalE_mono _ _ _ _ _ h1 (max f1 f2) (Nat.le_max_left _ _)]
    exact semEvalE_mono _ _ _ _ _ h2 _ (Nat.le_max_right _ _)
  | starDone _ ih => obtain ⟨f, hf⟩ := ih; exact ⟨f + 1, by simp only [semEvalE, hf]⟩
  | starErr _ ih => obtain ⟨f, hf⟩ := ih; exact ⟨f + 1, by simp only [semEvalE, hf]⟩
  | starStep _ _ ih1 ih2 =>
    obtain ⟨f1, h1⟩ := ih1
    obtain ⟨f2, h2⟩ := ih2
    refine ⟨max f1 f2 + 1, ?_⟩
    simp only [semEvalE, semEvalE_mono _ _ _ _ _ h1 (max f1 f2) (Nat.le_max_left _ _)]
    exact semEvalE_mono _ _ _ _ _ h2 _ (Nat.le_max_right _ _)
  | andOk _ ih => obtain ⟨f, hf⟩ := ih; exact ⟨f, by simp only [semEvalE, hf]⟩
  | andFail _ ih => obtain ⟨f, hf⟩ := ih; exact ⟨f, by simp only [semEvalE, hf]⟩
  | andErr _ ih => obtain ⟨f, hf⟩ := ih; exact ⟨f, by simp only [semEvalE, hf]⟩
  | notOk _ ih => obtain ⟨f, hf⟩ := ih; exact ⟨f, by simp only [semEvalE, hf]⟩
  | notFail _ ih => obtain ⟨f, hf⟩ := ih; exact ⟨f, by simp only [semEvalE, hf]⟩
  | notErr _ ih => obtain ⟨f, hf⟩ := ih; exact ⟨f, by simp only [semEvalE, hf]⟩
  | raise => exact ⟨0, by simp [semEvalE]⟩
  | catchFOk _ ih => obtain ⟨f, hf⟩ := ih; exact ⟨f, by simp only [semEvalE, hf]⟩
  | catchFFail _ ih => obtain ⟨f, hf⟩ := ih; exact ⟨f, by simp only [semEvalE, hf]⟩
  | catchFErr _ ih => obtain ⟨f, hf⟩ := ih; exact ⟨f, by simp only [semEvalE, hf]⟩
  | catchNOk _ ih => obtain ⟨f, hf⟩ := ih; exact ⟨f, by simp only [semEvalE, hf]⟩
  | catchNFail _ ih => obtain ⟨f, hf⟩ := ih; exact ⟨f, by simp only [semEvalE, hf]⟩
  | catchNErr _ ih => obtain ⟨f, hf⟩ := ih; exact ⟨f, by simp only [semEvalE, hf]⟩
  | subOk _ _ ih1 ih2 =>
    obtain ⟨f1, h1⟩ := ih1
    obtain ⟨f2, h2⟩ := ih2
    refine ⟨max f1 f2, ?_⟩
    simp only [semEvalE, semEvalE_mono _ _ _ _ _ h1 (max f1 f2) (Nat.le_max_left _ _),
      semEvalE_mono _ _ _ _ _ h2 (max f1 f2) (Nat.le_max_right _ _)]
  | subInnerFail _ _ ih1 ih2 =>
    obtain ⟨f1, h1⟩ := ih1
    obtain ⟨f2, h2⟩ := ih2
    refine ⟨max f1 f2, ?_⟩
    simp only [semEvalE, semEvalE_mono _ _ _ _ _ h1 (max f1 f2) (Nat.le_max_left _ _),
      semEvalE_mono _ _ _ _ _ h2 (max f1 f2) (Nat.le_max_right _ _)]
  | subInnerErr _ _ ih1 ih2 =>
    obtain ⟨f1, h1⟩ := ih1
    obtain ⟨f2, h2⟩ := ih2
    refine ⟨max f1 f2, ?_⟩
    simp only [semEvalE, semEvalE_mono _ _ _ _ _ h1 (max f1 f2) (Nat.le_max_left _ _),
      semEvalE_mono _ _ _ _ _ h2 (max f1 f2) (Nat.le_max_right _ _)]
  | subFail _ ih => obtain ⟨f, hf⟩ := ih; exact ⟨f, by simp only [semEvalE, hf]⟩
  | subErr _ ih => obtain ⟨f, hf⟩ := ih; exact ⟨f, by simp only [semEvalE, hf]⟩

/-- The evaluator decides the relation: soundness and completeness together. -/
theorem sem_iff_eval {G eol inp endp e p o} :
    Sem G eol inp endp e p o ↔ ∃ f, semEvalE G eol inp f endp e p = some o :=
  ⟨semEvalE_complete, fun ⟨f, h⟩ => semEvalE_sound f endp e p o h⟩

end Pegtl.Spec
