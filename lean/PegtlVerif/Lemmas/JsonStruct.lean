/-
  Lemmas/JsonStruct.lean — the structural rules of `Expected.json` (json.hpp): `value`, `array`,
  `object`, `member`, the element lists and `text`, `top = seq< text, eof >`.

  `P` is json.hpp read as a *context-free* grammar (same shape as the PEGTL rules: whitespace is
  attached where `padr`/`pad` attach it; lexical rules are the RFC's `String`, `Number`).

    * `value_inv` … `top_inv`            a successful PEG match consumed a string of `P` (soundness),
    * `P_complete`, `top_complete`       a string of `P` is matched exactly by the PEG, given that what
                                         follows cannot extend it (completeness; the follow-set argument).

  Lemmas/JsonRfc.lean relates `P` to the RFC's own productions.
-/
import PegtlVerif.Lemmas.JsonString

namespace Pegtl.Json
open Pegtl Pegtl.Spec Pegtl.Rfc8259

/-! ### json.hpp as a context-free grammar -/

inductive PT | value | elem | elemTail | arrContent | array | member | memTail | objContent | object
  deriving DecidableEq, Repr

inductive P : PT → Str → Prop
  /- `value = sor< string, number, object, array, false_, true_, null >` -/
  | vString {s} : Rfc8259.String s → P .value s
  | vNumber {s} : Number s → P .value s
  | vObject {s} : P .object s → P .value s
  | vArray {s} : P .array s → P .value s
  | vFalse : P .value litFalse
  | vTrue : P .value litTrue
  | vNull : P .value litNull
  /- `array_element`, `member_value` `= padr< value > = seq< value, star< ws > >` -/
  | elem {v w} : P .value v → Ws w → P .elem (v ++ w)
  /- `star< value_separator, next_array_element >`, `value_separator = padr< one< ',' > >` -/
  | elemTailNil : P .elemTail []
  | elemTailCons {w e t} : Ws w → P .elem e → P .elemTail t → P .elemTail (0x2C :: (w ++ (e ++ t)))
  /- `array_content = opt< array_element, star< value_separator, next_array_element > >` -/
  | arrContentNil : P .arrContent []
  | arrContentCons {e t} : P .elem e → P .elemTail t → P .arrContent (e ++ t)
  /- `array = seq< begin_array, array_content, end_array >`, `begin_array = padr< one< '[' > >`, `end_array = one< ']' >` -/
  | array {w c} : Ws w → P .arrContent c → P .array (0x5B :: (w ++ (c ++ [0x5D])))
  /- `member = seq< key, name_separator, member_value >`, `name_separator = pad< one< ':' >, ws >` -/
  | member {k w₁ w₂ e} : Rfc8259.String k → Ws w₁ → Ws w₂ → P .elem e → P .member (k ++ (w₁ ++ (0x3A :: (w₂ ++ e))))
  /- `star< value_separator, next_member >` -/
  | memTailNil : P .memTail []
  | memTailCons {w m t} : Ws w → P .member m → P .memTail t → P .memTail (0x2C :: (w ++ (m ++ t)))
  /- `object_content = opt< member, star< value_separator, next_member > >` -/
  | objContentNil : P .objContent []
  | objContentCons {m t} : P .member m → P .memTail t → P .objContent (m ++ t)
  /- `object = seq< begin_object, object_content, end_object >` -/
  | object {w c} : Ws w → P .objContent c → P .object (0x7B :: (w ++ (c ++ [0x7D])))

/-- `text = pad< value, ws >` -/
def PText (s : Str) : Prop := ∃ a v b, Ws a ∧ P .value v ∧ Ws b ∧ s = a ++ (v ++ b)

/-! ### Literals `false_`, `true_`, `null` (`string< … >` atoms) -/

theorem isPrefixOf_append (cs rem : Str) : cs.isPrefixOf (cs ++ rem) = true := by
  induction cs with
  | nil => rfl
  | cons c cs ih => simp [ih]

theorem eq_of_isPrefixOf {cs r : Str} (h : cs.isPrefixOf r = true) : r = cs ++ r.drop cs.length := by
  induction cs generalizing r with
  | nil => rfl
  | cons c cs ih =>
    cases r with
    | nil => simp [List.isPrefixOf] at h
    | cons d r =>
      simp only [List.isPrefixOf, Bool.and_eq_true, beq_iff_eq] at h
      obtain ⟨rfl, h⟩ := h
      simp only [List.length_cons, List.drop_succ_cons, List.cons_append, List.cons.injEq, true_and]
      exact ih h

theorem lit_ok {i : Nat} {cs : Str} (hg : G i = some (.atom (.string cs))) (rem : Str) :
    L (.ref i) (cs ++ rem) (.ok rem) := by
  refine .ref hg (.atomOk rfl ?_)
  simp only [atomL, isPrefixOf_append, if_true, List.drop_left]

theorem lit_inv {i : Nat} {cs : Str} (hg : G i = some (.atom (.string cs))) {r r' : Str}
    (h : L (.ref i) r (.ok r')) : r = cs ++ r' := by
  rw [SemL.ref_iff hg, SemL.atom_ok_iff rfl] at h
  simp only [atomL] at h
  split at h
  · rename_i hp; cases h; exact eq_of_isPrefixOf hp
  · cases h

theorem lit_fail {i : Nat} {c : UInt8} {cs : Str} (hg : G i = some (.atom (.string (c :: cs)))) {r : Str}
    (h : ¬ HeadIn (fun x => x = c) r) : L (.ref i) r .fail := by
  refine .ref hg (.atomFail rfl ?_)
  simp only [atomL]
  rw [if_neg]
  intro hp
  cases r with
  | nil => simp [List.isPrefixOf] at hp
  | cons d t =>
    simp only [List.isPrefixOf, Bool.and_eq_true, beq_iff_eq] at hp
    exact h ⟨d, t, rfl, hp.1.symm⟩

/-! ### `padr< one< b > >` (nodes 1 `[`, 2 `{`, 6 `,`) and `name_separator` -/

section Padr
variable {i j : Nat} {b : UInt8}

theorem padr_inv (hg : G i = some (.seq (.ref j) (.seq (.ref 38) .eps))) (hj : G j = some (.atom (.one true [b])))
    {r r' : Str} (h : L (.ref i) r (.ok r')) : ∃ w, r = b :: (w ++ r') ∧ Ws w ∧ ¬ HeadIn IsWs r' := by
  rw [SemL.ref_iff hg] at h
  obtain ⟨m1, h1, h⟩ := SemL.seq_ok_iff.mp h
  obtain ⟨m2, h2, h3⟩ := SemL.seq_ok_iff.mp h
  cases SemL.eps_iff.mp h3
  obtain ⟨c, rfl, rfl⟩ := cls_inv hj (clsByte b) h1
  rw [SemL.ref_iff g38] at h2
  obtain ⟨w, rfl, hw, hn⟩ := wsStar_inv h2
  exact ⟨w, rfl, hw, hn⟩

theorem padr_complete (hg : G i = some (.seq (.ref j) (.seq (.ref 38) .eps))) (hj : G j = some (.atom (.one true [b])))
    {w rem : Str} (hw : Ws w) (hr : ¬ HeadIn IsWs rem) : L (.ref i) (b :: (w ++ rem)) (.ok rem) :=
  .ref hg (.seqOk (cls_ok hj (clsByte b) rfl) (.seqOk (.ref g38 (wsStar_complete hw hr)) .eps))

theorem padr_fail (hg : G i = some (.seq (.ref j) (.seq (.ref 38) .eps))) (hj : G j = some (.atom (.one true [b])))
    {r : Str} (h : ¬ HeadIn (fun c => c = b) r) : L (.ref i) r .fail :=
  .ref hg (.seqFail (cls_fail hj (clsByte b) h))

end Padr

theorem nameSep_inv {r r' : Str} (h : L (.ref 5) r (.ok r')) :
    ∃ w₁ w₂, r = w₁ ++ (0x3A :: (w₂ ++ r')) ∧ Ws w₁ ∧ Ws w₂ := by
  rw [SemL.ref_iff g5] at h
  obtain ⟨m1, h1, h⟩ := SemL.seq_ok_iff.mp h
  obtain ⟨m2, h2, h⟩ := SemL.seq_ok_iff.mp h
  obtain ⟨m3, h3, h4⟩ := SemL.seq_ok_iff.mp h
  cases SemL.eps_iff.mp h4
  rw [SemL.ref_iff g40] at h1 h3
  obtain ⟨w₁, rfl, hw₁, _⟩ := wsStar_inv h1
  obtain ⟨c, rfl, rfl⟩ := cls_inv g41 (clsByte 58) h2
  obtain ⟨w₂, rfl, hw₂, _⟩ := wsStar_inv h3
  exact ⟨w₁, w₂, rfl, hw₁, hw₂⟩

theorem nameSep_complete {w₁ w₂ rem : Str} (h₁ : Ws w₁) (h₂ : Ws w₂) (hr : ¬ HeadIn IsWs rem) :
    L (.ref 5) (w₁ ++ (0x3A :: (w₂ ++ rem))) (.ok rem) := by
  refine .ref g5 (.seqOk (.ref g40 (wsStar_complete h₁ ?_)) (.seqOk (cls_ok g41 (clsByte 58) rfl)
    (.seqOk (.ref g40 (wsStar_complete h₂ hr)) .eps)))
  rw [headIn_cons]; unfold IsWs; decide

/-! ### First bytes -/

/-- The bytes a JSON value can start with. -/
def ValStart (c : UInt8) : Prop :=
  c = 0x22 ∨ (IsDigit c ∨ c = 0x2D) ∨ c = 0x7B ∨ c = 0x5B ∨ c = 0x66 ∨ c = 0x74 ∨ c = 0x6E

theorem headIn_excl {S T : UInt8 → Prop} (hST : ∀ c, S c → ¬ T c) {v rem : Str} (hv : HeadIn S v) :
    ¬ HeadIn T (v ++ rem) := by
  obtain ⟨c, t, rfl, hc⟩ := hv
  rw [List.cons_append, headIn_cons]; exact hST c hc

theorem headIn_append {S : UInt8 → Prop} {v rem : Str} (hv : HeadIn S v) : HeadIn S (v ++ rem) := by
  obtain ⟨c, t, rfl, hc⟩ := hv; exact ⟨c, t ++ rem, rfl, hc⟩

theorem object_head {s : Str} (h : P .object s) : HeadIn (fun c => c = 0x7B) s := by
  cases h; exact ⟨_, _, rfl, rfl⟩

theorem array_head {s : Str} (h : P .array s) : HeadIn (fun c => c = 0x5B) s := by
  cases h; exact ⟨_, _, rfl, rfl⟩

theorem value_head {v : Str} (h : P .value v) : HeadIn ValStart v := by
  cases h with
  | vString hs => exact (string_head hs).mono fun _ h => .inl h
  | vNumber hn => exact (number_head hn).mono fun _ h => .inr (.inl h)
  | vObject ho => exact (object_head ho).mono fun _ h => .inr (.inr (.inl h))
  | vArray ha => exact (array_head ha).mono fun _ h => .inr (.inr (.inr (.inl h)))
  | vFalse => exact ⟨_, _, rfl, .inr (.inr (.inr (.inr (.inl rfl))))⟩
  | vTrue => exact ⟨_, _, rfl, .inr (.inr (.inr (.inr (.inr (.inl rfl)))))⟩
  | vNull => exact ⟨_, _, rfl, .inr (.inr (.inr (.inr (.inr (.inr rfl)))))⟩

theorem valStart_not_ws (c : UInt8) (h : ValStart c) : ¬ IsWs c := by
  unfold ValStart at h; intro hw; u8

theorem elem_head {e : Str} (h : P .elem e) : HeadIn ValStart e := by
  cases h with
  | elem hv _ => exact headIn_append (value_head hv)

theorem member_head {m : Str} (h : P .member m) : HeadIn (fun c => c = 0x22) m := by
  cases h with
  | member hk _ _ _ => exact headIn_append (string_head hk)

/-! ### Soundness: a successful match consumed a string of `P`

By strong induction on the length of the remaining input: `ValIH n` is the statement for `value`
on inputs shorter than `n`; every nested value sits behind at least one consumed byte (`[`, `{`). -/

def ValIH (n : Nat) : Prop :=
  ∀ r r' : Str, r.length < n → L (.ref 25) r (.ok r') → ∃ v, r = v ++ r' ∧ P .value v

/-- `padr< value >` (nodes 26 `array_element`, 30 `member_value`). -/
theorem elem_inv {n : Nat} (ih : ValIH n) {r r' : Str} (hr : r.length < n)
    (h : L (.seq (.ref 25) (.seq (.ref 38) .eps)) r (.ok r')) :
    ∃ e, r = e ++ r' ∧ P .elem e := by
  obtain ⟨m1, h1, h⟩ := SemL.seq_ok_iff.mp h
  obtain ⟨m2, h2, h3⟩ := SemL.seq_ok_iff.mp h
  cases SemL.eps_iff.mp h3
  obtain ⟨v, rfl, hv⟩ := ih r m1 hr h1
  rw [SemL.ref_iff g38] at h2
  obtain ⟨w, rfl, hw, _⟩ := wsStar_inv h2
  exact ⟨v ++ w, by simp, .elem hv hw⟩

theorem suffix_length {e : PExp} {r r' : Str} (h : L e r (.ok r')) : r'.length ≤ r.length := by
  obtain ⟨t, rfl⟩ := h.suffix; simp

theorem elemTail_inv {n : Nat} (ih : ValIH n) {r r' : Str} (hr : r.length < n)
    (h : L (.star (.ref 65)) r (.ok r')) : ∃ t, r = t ++ r' ∧ P .elemTail t := by
  refine SemL.star_ind (motive := fun r => r.length < n → ∃ t, r = t ++ r' ∧ P .elemTail t) h
    (fun _ _ => ⟨[], rfl, .elemTailNil⟩) ?_ hr
  intro x y hxy ihy hx
  have hyx := suffix_length hxy
  obtain ⟨t, rfl, ht⟩ := ihy (by omega)
  rw [SemL.ref_iff g65] at hxy
  obtain ⟨m1, h1, h'⟩ := SemL.seq_ok_iff.mp hxy
  obtain ⟨m2, h2, h3⟩ := SemL.seq_ok_iff.mp h'
  cases SemL.eps_iff.mp h3
  obtain ⟨w, rfl, hw, _⟩ := padr_inv g6 g42 h1
  rw [SemL.ref_iff g27] at h2
  obtain ⟨m3, h2, h3⟩ := SemL.seq_ok_iff.mp h2
  cases SemL.eps_iff.mp h3
  rw [SemL.ref_iff g26] at h2
  have hl : (w ++ m1).length < n := by simp only [List.length_cons, List.length_append] at hx ⊢; omega
  have hl' : m1.length < n := by simp only [List.length_append] at hl; omega
  obtain ⟨e, rfl, he⟩ := elem_inv ih hl' h2
  exact ⟨0x2C :: (w ++ (e ++ t)), by simp, .elemTailCons hw he ht⟩

theorem arrContent_inv {n : Nat} (ih : ValIH n) {r r' : Str} (hr : r.length < n)
    (h : L (.ref 28) r (.ok r')) : ∃ c, r = c ++ r' ∧ P .arrContent c := by
  rw [SemL.ref_iff g28] at h
  rcases opt_inv h with h | ⟨rfl, _⟩
  · rw [SemL.ref_iff g63] at h
    obtain ⟨m1, h1, h⟩ := SemL.seq_ok_iff.mp h
    obtain ⟨m2, h2, h3⟩ := SemL.seq_ok_iff.mp h
    cases SemL.eps_iff.mp h3
    rw [SemL.ref_iff g26] at h1
    have hm := suffix_length h1
    obtain ⟨e, rfl, he⟩ := elem_inv ih hr h1
    rw [SemL.ref_iff g64] at h2
    obtain ⟨t, rfl, ht⟩ := elemTail_inv ih (by omega) h2
    exact ⟨e ++ t, by simp, .arrContentCons he ht⟩
  · exact ⟨[], rfl, .arrContentNil⟩

theorem array_inv {r r' : Str} (ih : ValIH r.length) (h : L (.ref 29) r (.ok r')) :
    ∃ s, r = s ++ r' ∧ P .array s := by
  rw [SemL.ref_iff g29] at h
  obtain ⟨m1, h1, h⟩ := SemL.seq_ok_iff.mp h
  obtain ⟨m2, h2, h⟩ := SemL.seq_ok_iff.mp h
  obtain ⟨m3, h3, h4⟩ := SemL.seq_ok_iff.mp h
  cases SemL.eps_iff.mp h4
  obtain ⟨w, rfl, hw, _⟩ := padr_inv g1 g37 h1
  obtain ⟨c, rfl, hc⟩ := arrContent_inv ih (by simp only [List.length_cons, List.length_append]; omega) h2
  obtain ⟨x, rfl, rfl⟩ := cls_inv g3 (clsByte 93) h3
  exact ⟨0x5B :: (w ++ (c ++ [0x5D])), by simp, .array hw hc⟩

theorem member_inv {n : Nat} (ih : ValIH n) {r r' : Str} (hr : r.length < n)
    (h : L (.ref 31) r (.ok r')) : ∃ m, r = m ++ r' ∧ P .member m := by
  rw [SemL.ref_iff g31] at h
  obtain ⟨m1, h1, h⟩ := SemL.seq_ok_iff.mp h
  obtain ⟨m2, h2, h⟩ := SemL.seq_ok_iff.mp h
  obtain ⟨m3, h3, h4⟩ := SemL.seq_ok_iff.mp h
  cases SemL.eps_iff.mp h4
  have l1 := suffix_length h1
  have l2 := suffix_length h2
  obtain ⟨k, rfl, hk⟩ := key_inv h1
  obtain ⟨w₁, w₂, rfl, hw₁, hw₂⟩ := nameSep_inv h2
  rw [SemL.ref_iff g30] at h3
  obtain ⟨e, rfl, he⟩ := elem_inv ih (by omega) h3
  exact ⟨k ++ (w₁ ++ (0x3A :: (w₂ ++ e))), by simp, .member hk hw₁ hw₂ he⟩

theorem memTail_inv {n : Nat} (ih : ValIH n) {r r' : Str} (hr : r.length < n)
    (h : L (.star (.ref 68)) r (.ok r')) : ∃ t, r = t ++ r' ∧ P .memTail t := by
  refine SemL.star_ind (motive := fun r => r.length < n → ∃ t, r = t ++ r' ∧ P .memTail t) h
    (fun _ _ => ⟨[], rfl, .memTailNil⟩) ?_ hr
  intro x y hxy ihy hx
  have hyx := suffix_length hxy
  obtain ⟨t, rfl, ht⟩ := ihy (by omega)
  rw [SemL.ref_iff g68] at hxy
  obtain ⟨m1, h1, h'⟩ := SemL.seq_ok_iff.mp hxy
  obtain ⟨m2, h2, h3⟩ := SemL.seq_ok_iff.mp h'
  cases SemL.eps_iff.mp h3
  obtain ⟨w, rfl, hw, _⟩ := padr_inv g6 g42 h1
  rw [SemL.ref_iff g32] at h2
  obtain ⟨m3, h2, h3⟩ := SemL.seq_ok_iff.mp h2
  cases SemL.eps_iff.mp h3
  have hl : m1.length < n := by simp only [List.length_cons, List.length_append] at hx; omega
  obtain ⟨m, rfl, hm⟩ := member_inv ih hl h2
  exact ⟨0x2C :: (w ++ (m ++ t)), by simp, .memTailCons hw hm ht⟩

theorem objContent_inv {n : Nat} (ih : ValIH n) {r r' : Str} (hr : r.length < n)
    (h : L (.ref 33) r (.ok r')) : ∃ c, r = c ++ r' ∧ P .objContent c := by
  rw [SemL.ref_iff g33] at h
  rcases opt_inv h with h | ⟨rfl, _⟩
  · rw [SemL.ref_iff g66] at h
    obtain ⟨m1, h1, h⟩ := SemL.seq_ok_iff.mp h
    obtain ⟨m2, h2, h3⟩ := SemL.seq_ok_iff.mp h
    cases SemL.eps_iff.mp h3
    have hm := suffix_length h1
    obtain ⟨m, rfl, hmm⟩ := member_inv ih hr h1
    rw [SemL.ref_iff g67] at h2
    obtain ⟨t, rfl, ht⟩ := memTail_inv ih (by omega) h2
    exact ⟨m ++ t, by simp, .objContentCons hmm ht⟩
  · exact ⟨[], rfl, .objContentNil⟩

theorem object_inv {r r' : Str} (ih : ValIH r.length) (h : L (.ref 34) r (.ok r')) :
    ∃ s, r = s ++ r' ∧ P .object s := by
  rw [SemL.ref_iff g34] at h
  obtain ⟨m1, h1, h⟩ := SemL.seq_ok_iff.mp h
  obtain ⟨m2, h2, h⟩ := SemL.seq_ok_iff.mp h
  obtain ⟨m3, h3, h4⟩ := SemL.seq_ok_iff.mp h
  cases SemL.eps_iff.mp h4
  obtain ⟨w, rfl, hw, _⟩ := padr_inv g2 g39 h1
  obtain ⟨c, rfl, hc⟩ := objContent_inv ih (by simp only [List.length_cons, List.length_append]; omega) h2
  obtain ⟨x, rfl, rfl⟩ := cls_inv g4 (clsByte 125) h3
  exact ⟨0x7B :: (w ++ (c ++ [0x7D])), by simp, .object hw hc⟩

theorem value_inv_step {r r' : Str} (ih : ValIH r.length) (h : L (.ref 25) r (.ok r')) :
    ∃ v, r = v ++ r' ∧ P .value v := by
  rw [SemL.ref_iff g25] at h
  rcases SemL.alt_ok_iff.mp h with h | ⟨_, h⟩
  · obtain ⟨s, rfl, hs⟩ := string_inv h; exact ⟨s, rfl, .vString hs⟩
  rcases SemL.alt_ok_iff.mp h with h | ⟨_, h⟩
  · obtain ⟨s, rfl, hs⟩ := number_inv h; exact ⟨s, rfl, .vNumber hs⟩
  rcases SemL.alt_ok_iff.mp h with h | ⟨_, h⟩
  · obtain ⟨s, rfl, hs⟩ := object_inv ih h; exact ⟨s, rfl, .vObject hs⟩
  rcases SemL.alt_ok_iff.mp h with h | ⟨_, h⟩
  · obtain ⟨s, rfl, hs⟩ := array_inv ih h; exact ⟨s, rfl, .vArray hs⟩
  rcases SemL.alt_ok_iff.mp h with h | ⟨_, h⟩
  · exact ⟨_, lit_inv g7 h, .vFalse⟩
  rcases SemL.alt_ok_iff.mp h with h | ⟨_, h⟩
  · exact ⟨_, lit_inv g9 h, .vTrue⟩
  rcases SemL.alt_ok_iff.mp h with h | ⟨_, h⟩
  · exact ⟨_, lit_inv g8 h, .vNull⟩
  · cases SemL.failE_iff.mp h

/-- Soundness of `value`: whatever the PEG rule `value` consumes is a value of the CFG reading. -/
theorem value_inv : ∀ (n : Nat) (r r' : Str), r.length = n → L (.ref 25) r (.ok r') →
    ∃ v, r = v ++ r' ∧ P .value v := by
  intro n
  induction n using Nat.strongRecOn with
  | ind n ih =>
    intro r r' hn h
    refine value_inv_step ?_ h
    intro a a' ha h'
    exact ih a.length (by omega) a a' rfl h'

/-- Soundness of `top = seq< text, eof >`: success means the whole input is `ws value ws`. -/
theorem top_inv {s r' : Str} (h : L (.ref 36) s (.ok r')) : r' = [] ∧ PText s := by
  rw [SemL.ref_iff g36] at h
  obtain ⟨m1, h1, h⟩ := SemL.seq_ok_iff.mp h
  obtain ⟨m2, h2, h3⟩ := SemL.seq_ok_iff.mp h
  cases SemL.eps_iff.mp h3
  rw [SemL.ref_iff g69, SemL.atom_ok_iff rfl] at h2
  have hm1 : m1 = [] ∧ r' = [] := by
    cases m1 with
    | nil => simp only [atomL, Option.some.injEq] at h2; exact ⟨rfl, h2.symm⟩
    | cons c t => simp [atomL] at h2
  obtain ⟨rfl, rfl⟩ := hm1
  refine ⟨rfl, ?_⟩
  rw [SemL.ref_iff g35] at h1
  obtain ⟨n1, a1, h⟩ := SemL.seq_ok_iff.mp h1
  obtain ⟨n2, a2, h⟩ := SemL.seq_ok_iff.mp h
  obtain ⟨n3, a3, a4⟩ := SemL.seq_ok_iff.mp h
  cases SemL.eps_iff.mp a4
  rw [SemL.ref_iff g40] at a1 a3
  obtain ⟨a, rfl, ha, _⟩ := wsStar_inv a1
  obtain ⟨v, rfl, hv⟩ := value_inv _ _ _ rfl a2
  obtain ⟨b, rfl, hb, _⟩ := wsStar_inv a3
  exact ⟨a, v, b, ha, hv, hb, by simp⟩

/-! ### Completeness: a string of `P` is matched exactly (follow-set argument) -/

/-- What may follow a value inside a structure or at the end: not whitespace that the preceding
    `star< ws >` would have taken, not a byte that extends a number. -/
def Stop (rem : Str) : Prop := ¬ HeadIn (fun c => IsWs c ∨ NumExt c) rem

/-- `]` or `}`. -/
def IsClose (c : UInt8) : Prop := c = 0x5D ∨ c = 0x7D

theorem stop_of_close {rem : Str} (h : HeadIn IsClose rem) : Stop rem := by
  obtain ⟨c, t, rfl, hc⟩ := h
  unfold Stop; rw [headIn_cons]
  unfold IsClose at hc; unfold NumExt
  rintro (h | h) <;> u8

theorem stop_comma (t : Str) : Stop (0x2C :: t) := by
  unfold Stop; rw [headIn_cons]; unfold NumExt
  rintro (h | h) <;> u8

theorem Stop.not_ws {rem : Str} (h : Stop rem) : ¬ HeadIn IsWs rem := fun hh => h (hh.mono fun _ x => .inl x)
theorem Stop.not_numExt {rem : Str} (h : Stop rem) : ¬ HeadIn NumExt rem := fun hh => h (hh.mono fun _ x => .inr x)

theorem not_numExt_ws_append {w rem : Str} (hw : Ws w) (hr : ¬ HeadIn NumExt rem) : ¬ HeadIn NumExt (w ++ rem) := by
  cases w with
  | nil => exact hr
  | cons c t =>
    rw [List.cons_append, headIn_cons]
    have := hw c (by simp)
    unfold NumExt; intro h; u8

theorem value_fail {r : Str} (h : ¬ HeadIn ValStart r) : L (.ref 25) r .fail := by
  have n1 : ¬ HeadIn (fun c => c = 0x22) r := fun hh => h (hh.mono fun _ x => .inl x)
  have n2 : ¬ HeadIn (fun c => IsDigit c ∨ c = 0x2D) r := fun hh => h (hh.mono fun _ x => .inr (.inl x))
  have n3 : ¬ HeadIn (fun c => c = 0x7B) r := fun hh => h (hh.mono fun _ x => .inr (.inr (.inl x)))
  have n4 : ¬ HeadIn (fun c => c = 0x5B) r := fun hh => h (hh.mono fun _ x => .inr (.inr (.inr (.inl x))))
  have n5 : ¬ HeadIn (fun c => c = 0x66) r := fun hh => h (hh.mono fun _ x => .inr (.inr (.inr (.inr (.inl x)))))
  have n6 : ¬ HeadIn (fun c => c = 0x74) r := fun hh => h (hh.mono fun _ x => .inr (.inr (.inr (.inr (.inr (.inl x))))))
  have n7 : ¬ HeadIn (fun c => c = 0x6E) r := fun hh => h (hh.mono fun _ x => .inr (.inr (.inr (.inr (.inr (.inr x))))))
  exact .ref g25 (.altFail (string_fail n1) (.altFail (number_fail n2)
    (.altFail (.ref g34 (.seqFail (padr_fail g2 g39 n3))) (.altFail (.ref g29 (.seqFail (padr_fail g1 g37 n4)))
    (.altFail (lit_fail g7 n5) (.altFail (lit_fail g9 n6) (.altFail (lit_fail g8 n7) .failE)))))))

theorem close_not_valStart {rem : Str} (h : HeadIn IsClose rem) : ¬ HeadIn ValStart rem := by
  obtain ⟨c, t, rfl, hc⟩ := h
  rw [headIn_cons]; unfold IsClose at hc; unfold ValStart
  intro h; u8

/-- The statement proved for each nonterminal of `P`. -/
def Compl : PT → Str → Prop
  | .value, v => ∀ rem, ¬ HeadIn NumExt rem → L (.ref 25) (v ++ rem) (.ok rem)
  | .elem, e => ∀ rem, Stop rem → L (.seq (.ref 25) (.seq (.ref 38) .eps)) (e ++ rem) (.ok rem)
  | .elemTail, t => ∀ rem, HeadIn IsClose rem → L (.star (.ref 65)) (t ++ rem) (.ok rem)
  | .arrContent, c => ∀ rem, HeadIn IsClose rem → L (.ref 28) (c ++ rem) (.ok rem)
  | .array, a => ∀ rem, L (.ref 29) (a ++ rem) (.ok rem)
  | .member, m => ∀ rem, Stop rem → L (.ref 31) (m ++ rem) (.ok rem)
  | .memTail, t => ∀ rem, HeadIn IsClose rem → L (.star (.ref 68)) (t ++ rem) (.ok rem)
  | .objContent, c => ∀ rem, HeadIn IsClose rem → L (.ref 33) (c ++ rem) (.ok rem)
  | .object, o => ∀ rem, L (.ref 34) (o ++ rem) (.ok rem)

theorem sep_fail_of_close {rem : Str} (h : HeadIn IsClose rem) : L (.ref 6) rem .fail := by
  refine padr_fail g6 g42 ?_
  obtain ⟨c, t, rfl, hc⟩ := h
  rw [headIn_cons]; unfold IsClose at hc; intro h; u8

theorem stop_after {t rem : Str} (ht : t = [] ∨ HeadIn (fun c => c = 0x2C) t) (hr : HeadIn IsClose rem) :
    Stop (t ++ rem) := by
  rcases ht with rfl | ⟨c, u, rfl, rfl⟩
  · exact stop_of_close hr
  · exact stop_comma _

theorem elemTail_shape {t : Str} (h : P .elemTail t) : t = [] ∨ HeadIn (fun c => c = 0x2C) t := by
  cases h with
  | elemTailNil => exact .inl rfl
  | elemTailCons _ _ _ => exact .inr ⟨_, _, rfl, rfl⟩

theorem memTail_shape {t : Str} (h : P .memTail t) : t = [] ∨ HeadIn (fun c => c = 0x2C) t := by
  cases h with
  | memTailNil => exact .inl rfl
  | memTailCons _ _ _ => exact .inr ⟨_, _, rfl, rfl⟩

theorem P_complete {t : PT} {s : Str} (h : P t s) : Compl t s := by
  induction h with
  | vString hs => intro rem _; exact .ref g25 (.altOk (string_complete hs rem))
  | vNumber hn =>
    intro rem hr
    have hd := number_head hn
    exact .ref g25 (.altFail (string_fail (headIn_excl (fun c h => by intro h'; u8) hd))
      (.altOk (number_complete hn hr)))
  | vObject ho ih =>
    intro rem _
    have hd := object_head ho
    exact .ref g25 (.altFail (string_fail (headIn_excl (fun c h => by intro h'; u8) hd))
      (.altFail (number_fail (headIn_excl (fun c h => by intro h'; u8) hd)) (.altOk (ih rem))))
  | vArray ha ih =>
    intro rem _
    have hd := array_head ha
    exact .ref g25 (.altFail (string_fail (headIn_excl (fun c h => by intro h'; u8) hd))
      (.altFail (number_fail (headIn_excl (fun c h => by intro h'; u8) hd))
      (.altFail (.ref g34 (.seqFail (padr_fail g2 g39 (headIn_excl (fun c h => by intro h'; u8) hd))))
      (.altOk (ih rem)))))
  | vFalse =>
    intro rem _
    have hd : HeadIn (fun c => c = 0x66) litFalse := ⟨_, _, rfl, rfl⟩
    exact .ref g25 (.altFail (string_fail (headIn_excl (fun c h => by intro h'; u8) hd))
      (.altFail (number_fail (headIn_excl (fun c h => by intro h'; u8) hd))
      (.altFail (.ref g34 (.seqFail (padr_fail g2 g39 (headIn_excl (fun c h => by intro h'; u8) hd))))
      (.altFail (.ref g29 (.seqFail (padr_fail g1 g37 (headIn_excl (fun c h => by intro h'; u8) hd))))
      (.altOk (lit_ok g7 rem))))))
  | vTrue =>
    intro rem _
    have hd : HeadIn (fun c => c = 0x74) litTrue := ⟨_, _, rfl, rfl⟩
    exact .ref g25 (.altFail (string_fail (headIn_excl (fun c h => by intro h'; u8) hd))
      (.altFail (number_fail (headIn_excl (fun c h => by intro h'; u8) hd))
      (.altFail (.ref g34 (.seqFail (padr_fail g2 g39 (headIn_excl (fun c h => by intro h'; u8) hd))))
      (.altFail (.ref g29 (.seqFail (padr_fail g1 g37 (headIn_excl (fun c h => by intro h'; u8) hd))))
      (.altFail (lit_fail g7 (headIn_excl (fun c h => by intro h'; u8) hd))
      (.altOk (lit_ok g9 rem)))))))
  | vNull =>
    intro rem _
    have hd : HeadIn (fun c => c = 0x6E) litNull := ⟨_, _, rfl, rfl⟩
    exact .ref g25 (.altFail (string_fail (headIn_excl (fun c h => by intro h'; u8) hd))
      (.altFail (number_fail (headIn_excl (fun c h => by intro h'; u8) hd))
      (.altFail (.ref g34 (.seqFail (padr_fail g2 g39 (headIn_excl (fun c h => by intro h'; u8) hd))))
      (.altFail (.ref g29 (.seqFail (padr_fail g1 g37 (headIn_excl (fun c h => by intro h'; u8) hd))))
      (.altFail (lit_fail g7 (headIn_excl (fun c h => by intro h'; u8) hd))
      (.altFail (lit_fail g9 (headIn_excl (fun c h => by intro h'; u8) hd))
      (.altOk (lit_ok g8 rem))))))))
  | @elem v w _ hw ih =>
    intro rem hr
    rw [List.append_assoc]
    exact .seqOk (ih (w ++ rem) (not_numExt_ws_append hw hr.not_numExt))
      (.seqOk (.ref g38 (wsStar_complete hw hr.not_ws)) .eps)
  | elemTailNil => intro rem hr; exact .starDone (.ref g65 (.seqFail (sep_fail_of_close hr)))
  | @elemTailCons w e t hw he ht ihe iht =>
    intro rem hr
    have hne : ¬ HeadIn IsWs ((e ++ t) ++ rem) := by
      rw [List.append_assoc]
      exact headIn_excl valStart_not_ws (elem_head he)
    have h1 : L (.ref 6) (0x2C :: (w ++ ((e ++ t) ++ rem))) (.ok ((e ++ t) ++ rem)) := padr_complete g6 g42 hw hne
    have h2 : L (.ref 27) (e ++ (t ++ rem)) (.ok (t ++ rem)) :=
      .ref g27 (.seqOk (.ref g26 (ihe (t ++ rem) (stop_after (elemTail_shape ht) hr))) .eps)
    have : (0x2C :: (w ++ (e ++ t))) ++ rem = 0x2C :: (w ++ ((e ++ t) ++ rem)) := by simp
    rw [this]
    refine .starStep (.ref g65 (.seqOk h1 (.seqOk ?_ .eps))) (iht rem hr)
    rw [List.append_assoc]; exact h2
  | arrContentNil =>
    intro rem hr
    refine .ref g28 (opt_skip (.ref g63 (.seqFail (.ref g26 (.seqFail (value_fail ?_))))))
    exact close_not_valStart hr
  | @arrContentCons e t he ht ihe iht =>
    intro rem hr
    rw [List.append_assoc]
    exact .ref g28 (opt_ok (.ref g63 (.seqOk (.ref g26 (ihe (t ++ rem) (stop_after (elemTail_shape ht) hr)))
      (.seqOk (.ref g64 (iht rem hr)) .eps))))
  | @array w c hw hc ih =>
    intro rem
    have hcl : HeadIn IsClose (0x5D :: rem) := ⟨_, _, rfl, .inl rfl⟩
    have hne : ¬ HeadIn IsWs (c ++ (0x5D :: rem)) := by
      cases hc with
      | arrContentNil => rw [List.nil_append, headIn_cons]; unfold IsWs; decide
      | arrContentCons he _ => rw [List.append_assoc]; exact headIn_excl valStart_not_ws (elem_head he)
    have : (0x5B :: (w ++ (c ++ [0x5D]))) ++ rem = 0x5B :: (w ++ (c ++ (0x5D :: rem))) := by simp
    rw [this]
    exact .ref g29 (.seqOk (padr_complete g1 g37 hw hne) (.seqOk (ih _ hcl)
      (.seqOk (cls_ok g3 (clsByte 93) rfl) .eps)))
  | @member k w₁ w₂ e hk h₁ h₂ he ih =>
    intro rem hr
    have hne : ¬ HeadIn IsWs (e ++ rem) := headIn_excl valStart_not_ws (elem_head he)
    have : (k ++ (w₁ ++ (0x3A :: (w₂ ++ e)))) ++ rem = k ++ (w₁ ++ (0x3A :: (w₂ ++ (e ++ rem)))) := by simp
    rw [this]
    exact .ref g31 (.seqOk (key_complete hk _) (.seqOk (nameSep_complete h₁ h₂ hne)
      (.seqOk (.ref g30 (ih rem hr)) .eps)))
  | memTailNil => intro rem hr; exact .starDone (.ref g68 (.seqFail (sep_fail_of_close hr)))
  | @memTailCons w m t hw hm ht ihm iht =>
    intro rem hr
    have hne : ¬ HeadIn IsWs ((m ++ t) ++ rem) := by
      rw [List.append_assoc]
      exact headIn_excl (fun c h => by intro h'; u8) (member_head hm)
    have h1 : L (.ref 6) (0x2C :: (w ++ ((m ++ t) ++ rem))) (.ok ((m ++ t) ++ rem)) := padr_complete g6 g42 hw hne
    have h2 : L (.ref 32) (m ++ (t ++ rem)) (.ok (t ++ rem)) :=
      .ref g32 (.seqOk (ihm (t ++ rem) (stop_after (memTail_shape ht) hr)) .eps)
    have : (0x2C :: (w ++ (m ++ t))) ++ rem = 0x2C :: (w ++ ((m ++ t) ++ rem)) := by simp
    rw [this]
    refine .starStep (.ref g68 (.seqOk h1 (.seqOk ?_ .eps))) (iht rem hr)
    rw [List.append_assoc]; exact h2
  | objContentNil =>
    intro rem hr
    refine .ref g33 (opt_skip (.ref g66 (.seqFail (.ref g31 (.seqFail (key_fail ?_))))))
    obtain ⟨c, t, rfl, hc⟩ := hr
    rw [List.nil_append, headIn_cons]; unfold IsClose at hc; intro h; u8
  | @objContentCons m t hm ht ihm iht =>
    intro rem hr
    rw [List.append_assoc]
    exact .ref g33 (opt_ok (.ref g66 (.seqOk (ihm (t ++ rem) (stop_after (memTail_shape ht) hr))
      (.seqOk (.ref g67 (iht rem hr)) .eps))))
  | @object w c hw hc ih =>
    intro rem
    have hcl : HeadIn IsClose (0x7D :: rem) := ⟨_, _, rfl, .inr rfl⟩
    have hne : ¬ HeadIn IsWs (c ++ (0x7D :: rem)) := by
      cases hc with
      | objContentNil => rw [List.nil_append, headIn_cons]; unfold IsWs; decide
      | objContentCons hm _ =>
        rw [List.append_assoc]
        exact headIn_excl (fun c h => by intro h'; u8) (member_head hm)
    have : (0x7B :: (w ++ (c ++ [0x7D]))) ++ rem = 0x7B :: (w ++ (c ++ (0x7D :: rem))) := by simp
    rw [this]
    exact .ref g34 (.seqOk (padr_complete g2 g39 hw hne) (.seqOk (ih _ hcl)
      (.seqOk (cls_ok g4 (clsByte 125) rfl) .eps)))

/-- Completeness of `top = seq< text, eof >` for the CFG reading of json.hpp. -/
theorem top_complete {s : Str} (h : PText s) : L (.ref 36) s (.ok []) := by
  obtain ⟨a, v, b, ha, hv, hb, rfl⟩ := h
  have h1 : L (.ref 40) (a ++ (v ++ b)) (.ok (v ++ b)) :=
    .ref g40 (wsStar_complete ha (headIn_excl valStart_not_ws (value_head hv)))
  have h2 : L (.ref 25) (v ++ b) (.ok b) := by
    have := P_complete hv b ?_
    · exact this
    · have := not_numExt_ws_append (rem := []) hb not_headIn_nil
      rwa [List.append_nil] at this
  have h3 : L (.ref 40) b (.ok []) := by
    have := wsStar_complete (rem := []) hb not_headIn_nil
    rw [List.append_nil] at this
    exact .ref g40 this
  exact .ref g36 (.seqOk (.ref g35 (.seqOk h1 (.seqOk h2 (.seqOk h3 .eps))))
    (.seqOk (.ref g69 (.atomOk rfl rfl)) .eps))

end Pegtl.Json
