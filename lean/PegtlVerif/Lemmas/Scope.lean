/-
  Lemmas/Scope.lean — the life cycle of state objects as a stack automaton over the event trace, and
  the proof that every trace of the model is accepted by it (C13).
-/
import PegtlVerif.Lemmas.RawClosureE

namespace Pegtl

/-- One step of the state-scope automaton.  The stack holds one flag per live state object
    (innermost first): has its `success` been called?  The nesting depth of a state object is its
    position in the stack. -/
def scopeStep (s : List Bool) : Ev → Option (List Bool)
  | .sctor d => if d = s.length + 1 then some (false :: s) else none
  | .ssucc d _ o =>
    match s with
    | false :: rest => if d = rest.length + 1 ∧ o = rest.length then some (true :: rest) else none
    | _ => none
  | .sdtor d =>
    match s with
    | _ :: rest => if d = rest.length + 1 then some rest else none
    | [] => none
  | .apply _ sd _ _ => if sd = s.length then some s else none
  | .apply0 _ sd _ => if sd = s.length then some s else none
  | .ruleApply _ sd _ _ => if sd = s.length then some s else none
  | _ => some s

def runScope : List Bool → List Ev → Option (List Bool)
  | s, [] => some s
  | s, e :: es => match scopeStep s e with
    | some s' => runScope s' es
    | none => none

theorem runScope_append (s : List Bool) (a b : List Ev) :
    runScope s (a ++ b) = (runScope s a).bind (fun s' => runScope s' b) := by
  induction a generalizing s with
  | nil => rfl
  | cons e es ih =>
    simp only [List.cons_append, runScope]
    cases scopeStep s e with
    | none => rfl
    | some s' => exact ih s'

/-- A trace segment produced with `env.sd` live state objects: accepted from every stack of that
    height, and the stack is as before afterwards — every state object constructed inside has been
    destroyed, in LIFO order, `success` was called at most once per object and only on the innermost
    one, with the next outer one as its outer state, and every action saw the innermost live object. -/
def SL (env : Env) (l : List Ev) : Prop := ∀ s : List Bool, s.length = env.sd → runScope s l = some s

theorem SL_closed : RawClosedE SL where
  nil := fun _ _ _ => rfl
  app := fun ha hb s hs => by rw [runScope_append, ha s hs]; exact hb s hs
  raise := fun _ _ _ _ _ => rfl
  fam := fun h s hs => h s hs
  ctlf := fun h s hs => h s hs
  scope := by
    intro env l o ho h s hs
    have h1 := h (false :: s) (by simp [hs])
    simp only [List.cons_append, List.append_assoc, runScope, scopeStep, hs, if_true]
    rw [runScope_append, h1]
    rcases ho with rfl | ⟨c, rfl⟩
    · simp [runScope, scopeStep, hs]
    · simp [runScope, scopeStep, hs]

/-- Events that are neither state events nor action calls are invisible to the automaton. -/
def Ev.scopeNeutral : Ev → Bool
  | .sctor _ | .ssucc _ _ _ | .sdtor _ | .apply _ _ _ _ | .apply0 _ _ _ | .ruleApply _ _ _ _ => false
  | _ => true

theorem SL_neutral (env : Env) {e : Ev} (h : e.scopeNeutral = true) : SL env [e] := by
  intro s _
  cases e <;> simp_all [Ev.scopeNeutral, runScope, scopeStep]

theorem SL_act (cx : Ctx) (env : Env) (i : Nat) (act : ActionSpec) (b e : Cursor) :
    SL env [actEvent cx i act env.sd b e] := by
  intro s hs
  unfold actEvent
  split <;> simp [runScope, scopeStep, hs]

theorem SL_ract (cx : Ctx) (env : Env) (acts : List RuleAct) (b e : Cursor) : SL env (runActs cx env.sd b e acts).2 :=
  runActs_raw (SL_closed.nil env) SL_closed.app cx env.sd b e
    (fun k s hs => by simp [runScope, scopeStep, hs]) acts

theorem SL_app {env : Env} {a b : List Ev} (ha : SL env a) (hb : SL env b) : SL env (a ++ b) := SL_closed.app ha hb

theorem SL_cons {env : Env} {e : Ev} {l : List Ev} (he : SL env [e]) (hl : SL env l) : SL env (e :: l) := by
  have := SL_app he hl
  simpa using this

theorem afterBody_scope (cx : Ctx) (i : Nat) (a : AMode) (act : ActionSpec) (env : Env) (saved : Cursor) (r : Ret)
    (h : SL env r.raw) : SL env (afterBody cx i a act env.sd saved r).raw := by
  unfold afterBody
  split
  · refine SL_app h ?_
    split
    · exact SL_neutral env rfl
    · exact SL_closed.nil env
  · exact failureHook_raw_closed SL_app (SL_neutral env rfl) (fun _ => SL_neutral env rfl) h
  · simp only
    split
    · exact SL_app h (SL_neutral env rfl)
    · refine SL_app (SL_app h (SL_act cx env i act _ _)) ?_
      split
      · exact SL_neutral env rfl
      · exact SL_closed.nil env
    · exact failureHook_raw_closed SL_app (SL_neutral env rfl) (fun _ => SL_neutral env rfl) (SL_app h (SL_act cx env i act _ _))
    · exact SL_app h (SL_cons (SL_act cx env i act _ _) (SL_neutral env rfl))

def ScRec (rec : Rec) : Prop := ∀ a, QRecE SL rec a

theorem nodeCore_scope {rec : Rec} (hrec : ScRec rec) (cx : Ctx) (k i : Nat) (nd : Node) (a : AMode) (m : RMode)
    (env : Env) (st : St) (r : Ret) (h : nodeCore cx rec k i nd a m env st = some r) : SL env r.raw := by
  unfold nodeCore at h
  split at h
  · exact body_rawE SL_closed cx k _ a (hrec a) (hrec .nothing) (fun _ => hrec .action) _ _ (fun _ => SL_ract cx env) _ _ h
  · simp only [Option.map_eq_some_iff] at h
    obtain ⟨r0, h0, rfl⟩ := h
    have hb := body_rawE SL_closed cx k _ a (hrec a) (hrec .nothing) (fun _ => hrec .action) _ _ (fun _ => SL_ract cx env) _ _ h0
    simp only [guardRestore_raw]
    exact SL_cons (SL_neutral env rfl) (afterBody_scope _ i a _ env st.cur r0 hb)

theorem stateScope_SL {cx : Ctx} {env : Env} {r : Ret} (b : Bool) (h : SL { env with sd := env.sd + 1 } r.raw) :
    SL env (stateScope cx env.sd b r).raw := by
  unfold stateScope
  simp only
  split
  · exact SL_closed.scope _ (Or.inr ⟨_, rfl⟩) h
  · exact SL_closed.scope _ (Or.inl rfl) h

theorem nodeCall_scope {rec : Rec} (hrec : ScRec rec) (cx : Ctx) (k i : Nat) (a : AMode) (m : RMode)
    (env : Env) (st : St) (r : Ret) (h : nodeCall cx rec k i a m env st = some r) : SL env r.raw := by
  unfold nodeCall at h
  split at h
  · exact absurd h (by simp)
  · rename_i nd _
    simp only [Option.map_eq_some_iff] at h
    obtain ⟨r0, h0, rfl⟩ := h
    have key : SL env r0.raw := by
      split at h0
      · exact nodeCore_scope hrec cx k i nd a m env st r0 h0
      · exact SL_closed.fam (hrec a _ _ _ _ _ h0)
      · exact nodeCore_scope hrec cx k i nd _ m env st r0 h0
      · exact nodeCore_scope hrec cx k i nd _ m env st r0 h0
      · unfold limitDepthCall at h0
        split at h0
        · simp only [Option.some.injEq] at h0; subst h0
          exact SL_neutral env rfl
        · simp only [Option.map_eq_some_iff] at h0
          obtain ⟨r1, h1, rfl⟩ := h0
          exact nodeCore_scope hrec cx k i nd a m env _ r1 h1
      · unfold limitBytesCall at h0
        simp only [Option.map_eq_some_iff] at h0
        obtain ⟨r1, h1, rfl⟩ := h0
        have q := nodeCore_scope hrec cx k i nd a m env _ r1 h1
        split
        · exact SL_app q (SL_neutral env rfl)
        · exact q
      · simp only [Option.map_eq_some_iff] at h0
        obtain ⟨r1, h1, rfl⟩ := h0
        exact stateScope_SL _ (nodeCore_scope hrec cx k i nd a m _ st r1 h1)
      · simp only [Option.map_eq_some_iff] at h0
        obtain ⟨r1, h1, rfl⟩ := h0
        refine stateScope_SL _ ?_
        have := hrec a _ _ _ _ _ h1
        exact fun s hs => this s hs
      · exact SL_closed.ctlf (nodeCore_scope hrec cx k i nd a m _ st r0 h0)
    simp only [bracket, dropOnFail_raw]
    exact SL_cons (SL_neutral env rfl) (SL_app key (SL_neutral env rfl))

theorem run_scope (cx : Ctx) : ∀ n, ScRec (run cx n) := by
  intro n
  induction n with
  | zero => intro a j m env st r h; simp [run] at h
  | succ n ih =>
    intro a j m env st r h
    simp only [run] at h
    exact nodeCall_scope ih cx n j a m env st r h

/-! ### state events inside an invocation belong to deeper state objects -/

/-- Depth mentioned by a state event. -/
def Ev.stateDepth : Ev → Option Nat
  | .sctor d => some d
  | .ssucc d _ _ => some d
  | .sdtor d => some d
  | _ => none

/-- Every state event of the segment concerns an object nested strictly deeper than the current one,
    and every action sees the current one or a deeper one. -/
def Deeper (env : Env) (l : List Ev) : Prop :=
  ∀ e ∈ l, (∀ d, e.stateDepth = some d → env.sd < d) ∧
    (∀ i sd b c, e = .apply i sd b c → env.sd ≤ sd) ∧ (∀ i sd c, e = .apply0 i sd c → env.sd ≤ sd)

theorem Deeper_closed : RawClosedE Deeper where
  nil := by intro env e he; simp at he
  app := by
    intro env a b ha hb e he
    simp only [List.mem_append] at he
    rcases he with he | he
    · exact ha e he
    · exact hb e he
  raise := by
    intro env i c e he
    simp only [List.mem_singleton] at he; subst he
    simp [Ev.stateDepth]
  fam := fun h e he => h e he
  ctlf := fun h e he => h e he
  scope := by
    intro env l o ho h e he
    simp only [List.cons_append, List.append_assoc, List.mem_cons, List.mem_append, List.not_mem_nil, or_false] at he
    rcases he with he | he | he | he
    · subst he; simp [Ev.stateDepth]
    · obtain ⟨h1, h2, h3⟩ := h e he
      refine ⟨fun d hd => ?_, fun i sd b c hh => ?_, fun i sd c hh => ?_⟩
      · have := h1 d hd; simp only at this; omega
      · have := h2 i sd b c hh; simp only at this; omega
      · have := h3 i sd c hh; simp only at this; omega
    · rcases ho with rfl | ⟨c, rfl⟩
      · simp at he
      · simp only [List.mem_singleton] at he; subst he; simp [Ev.stateDepth]
    · subst he; simp [Ev.stateDepth]

theorem Deeper_ract (cx : Ctx) (env : Env) (acts : List RuleAct) (b e : Cursor) : Deeper env (runActs cx env.sd b e acts).2 :=
  runActs_raw (Deeper_closed.nil env) Deeper_closed.app cx env.sd b e
    (fun k e' he => by simp only [List.mem_singleton] at he; subst he; simp [Ev.stateDepth]) acts

theorem Deeper_neutral (env : Env) {e : Ev} (h : e.scopeNeutral = true) : Deeper env [e] := by
  intro e' he
  simp only [List.mem_singleton] at he; subst he
  cases e' <;> simp_all [Ev.scopeNeutral, Ev.stateDepth]

theorem Deeper_act (cx : Ctx) (env : Env) (i : Nat) (act : ActionSpec) (b e : Cursor) :
    Deeper env [actEvent cx i act env.sd b e] := by
  intro e' he
  simp only [List.mem_singleton] at he; subst he
  unfold actEvent
  split
  · refine ⟨by simp [Ev.stateDepth], ?_, by simp⟩
    intro i' sd b' c' hh
    simp only [Ev.apply.injEq] at hh
    omega
  · refine ⟨by simp [Ev.stateDepth], by simp, ?_⟩
    intro i' sd c' hh
    simp only [Ev.apply0.injEq] at hh
    omega

theorem Deeper_cons {env : Env} {e : Ev} {l : List Ev} (he : Deeper env [e]) (hl : Deeper env l) : Deeper env (e :: l) := by
  have := Deeper_closed.app he hl
  simpa using this

theorem afterBody_deeper (cx : Ctx) (i : Nat) (a : AMode) (act : ActionSpec) (env : Env) (saved : Cursor) (r : Ret)
    (h : Deeper env r.raw) : Deeper env (afterBody cx i a act env.sd saved r).raw := by
  unfold afterBody
  split
  · refine Deeper_closed.app h ?_
    split
    · exact Deeper_neutral env rfl
    · exact Deeper_closed.nil env
  · exact failureHook_raw_closed Deeper_closed.app (Deeper_neutral env rfl) (fun _ => Deeper_neutral env rfl) h
  · simp only
    split
    · exact Deeper_closed.app h (Deeper_neutral env rfl)
    · refine Deeper_closed.app (Deeper_closed.app h (Deeper_act cx env i act _ _)) ?_
      split
      · exact Deeper_neutral env rfl
      · exact Deeper_closed.nil env
    · exact failureHook_raw_closed Deeper_closed.app (Deeper_neutral env rfl) (fun _ => Deeper_neutral env rfl) (Deeper_closed.app h (Deeper_act cx env i act _ _))
    · exact Deeper_closed.app h (Deeper_cons (Deeper_act cx env i act _ _) (Deeper_neutral env rfl))

def DpRec (rec : Rec) : Prop := ∀ a, QRecE Deeper rec a

theorem nodeCore_deeper {rec : Rec} (hrec : DpRec rec) (cx : Ctx) (k i : Nat) (nd : Node) (a : AMode) (m : RMode)
    (env : Env) (st : St) (r : Ret) (h : nodeCore cx rec k i nd a m env st = some r) : Deeper env r.raw := by
  unfold nodeCore at h
  split at h
  · exact body_rawE Deeper_closed cx k _ a (hrec a) (hrec .nothing) (fun _ => hrec .action) _ _ (fun _ => Deeper_ract cx env) _ _ h
  · simp only [Option.map_eq_some_iff] at h
    obtain ⟨r0, h0, rfl⟩ := h
    have hb := body_rawE Deeper_closed cx k _ a (hrec a) (hrec .nothing) (fun _ => hrec .action) _ _ (fun _ => Deeper_ract cx env) _ _ h0
    simp only [guardRestore_raw]
    exact Deeper_cons (Deeper_neutral env rfl) (afterBody_deeper _ i a _ env st.cur r0 hb)

theorem stateScope_deeper {cx : Ctx} {env : Env} {r : Ret} (b : Bool) (h : Deeper { env with sd := env.sd + 1 } r.raw) :
    Deeper env (stateScope cx env.sd b r).raw := by
  unfold stateScope
  simp only
  split
  · exact Deeper_closed.scope _ (Or.inr ⟨_, rfl⟩) h
  · exact Deeper_closed.scope _ (Or.inl rfl) h

theorem nodeCall_deeper {rec : Rec} (hrec : DpRec rec) (cx : Ctx) (k i : Nat) (a : AMode) (m : RMode)
    (env : Env) (st : St) (r : Ret) (h : nodeCall cx rec k i a m env st = some r) : Deeper env r.raw := by
  unfold nodeCall at h
  split at h
  · exact absurd h (by simp)
  · rename_i nd _
    simp only [Option.map_eq_some_iff] at h
    obtain ⟨r0, h0, rfl⟩ := h
    have key : Deeper env r0.raw := by
      split at h0
      · exact nodeCore_deeper hrec cx k i nd a m env st r0 h0
      · exact Deeper_closed.fam (hrec a _ _ _ _ _ h0)
      · exact nodeCore_deeper hrec cx k i nd _ m env st r0 h0
      · exact nodeCore_deeper hrec cx k i nd _ m env st r0 h0
      · unfold limitDepthCall at h0
        split at h0
        · simp only [Option.some.injEq] at h0; subst h0
          exact Deeper_neutral env rfl
        · simp only [Option.map_eq_some_iff] at h0
          obtain ⟨r1, h1, rfl⟩ := h0
          exact nodeCore_deeper hrec cx k i nd a m env _ r1 h1
      · unfold limitBytesCall at h0
        simp only [Option.map_eq_some_iff] at h0
        obtain ⟨r1, h1, rfl⟩ := h0
        have q := nodeCore_deeper hrec cx k i nd a m env _ r1 h1
        split
        · exact Deeper_closed.app q (Deeper_neutral env rfl)
        · exact q
      · simp only [Option.map_eq_some_iff] at h0
        obtain ⟨r1, h1, rfl⟩ := h0
        exact stateScope_deeper _ (nodeCore_deeper hrec cx k i nd a m _ st r1 h1)
      · simp only [Option.map_eq_some_iff] at h0
        obtain ⟨r1, h1, rfl⟩ := h0
        refine stateScope_deeper _ ?_
        have := hrec a _ _ _ _ _ h1
        exact fun e he => this e he
      · exact Deeper_closed.ctlf (nodeCore_deeper hrec cx k i nd a m _ st r0 h0)
    simp only [bracket, dropOnFail_raw]
    exact Deeper_cons (Deeper_neutral env rfl) (Deeper_closed.app key (Deeper_neutral env rfl))

theorem run_deeper (cx : Ctx) : ∀ n, DpRec (run cx n) := by
  intro n
  induction n with
  | zero => intro a j m env st r h; simp [run] at h
  | succ n ih =>
    intro a j m env st r h
    simp only [run] at h
    exact nodeCall_deeper ih cx n j a m env st r h

end Pegtl
