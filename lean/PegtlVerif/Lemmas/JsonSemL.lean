/-
  Lemmas/JsonSemL.lean — the PEG formalism `Spec.Sem` restated over *remaining input* (a list of
  bytes) instead of offsets into an array, for the exception-free fragment (no `raise`, `catch`,
  `sub`) and the atoms whose acceptance depends only on the remaining input.

    SemL G e r (.ok r')   the expression matches at `r` and leaves `r'` (a suffix of `r`)
    SemL G e r .fail      the expression fails at `r`

  `Sem.toL` / `SemL.toSem` show that on a plain grammar the two formulations are the same
  relation (with `endp = inp.size`), so language-theoretic arguments (C14, C20) can be carried
  out on lists, without offset arithmetic.  Generic: nothing here is specific to JSON.
-/
import PegtlVerif.Spec.Peg
import PegtlVerif.Lemmas.Utf
import PegtlVerif.Lemmas.SemDet

namespace Pegtl.Spec
open Pegtl

inductive LOut
  | ok (rest : List UInt8)
  | fail
  deriving DecidableEq, Repr

/-- Accept sets of the atoms on the remaining input: `some r'` = matches and leaves `r'`. -/
def atomL (a : Atom) (r : List UInt8) : Option (List UInt8) :=
  match a with
  | .any => match r with
    | _ :: t => some t
    | [] => none
  | .one found cs => match r with
    | c :: t => if cs.contains c = found then some t else none
    | [] => none
  | .range found lo hi => match r with
    | c :: t => if decide (lo ≤ c ∧ c ≤ hi) = found then some t else none
    | [] => none
  | .ranges rs single => match r with
    | c :: t => if (rs.any (fun x => x.1 ≤ c && c ≤ x.2) || single == some c) then some t else none
    | [] => none
  | .string cs => if cs.isPrefixOf r then some (r.drop cs.length) else none
  | .eof => match r with
    | [] => some []
    | _ :: _ => none
  | .success => some r
  | .failure => none
  | .utf8Range found lo hi =>
    match Utf.peekUtf8 r with
    | some (cp, n) => if decide (lo ≤ cp ∧ cp ≤ hi) = found then some (r.drop n) else none
    | none => none
  | _ => none

/-- The atoms covered by `atomL`. -/
def _root_.Pegtl.Atom.listOnly : Atom → Bool
  | .any | .one .. | .range .. | .ranges .. | .string _ | .eof | .success | .failure | .utf8Range .. => true
  | _ => false

/-- Expressions of the exception-free fragment over list-only atoms. -/
def PExp.plain : PExp → Bool
  | .eps | .failE | .ref _ => true
  | .atom a => a.listOnly
  | .seq a b | .alt a b => a.plain && b.plain
  | .star e | .and_ e | .not_ e => e.plain
  | _ => false

inductive SemL (G : Nat → Option PExp) : PExp → List UInt8 → LOut → Prop
  | eps {r} : SemL G .eps r (.ok r)
  | failE {r} : SemL G .failE r .fail
  | atomOk {a r r'} : a.listOnly = true → atomL a r = some r' → SemL G (.atom a) r (.ok r')
  | atomFail {a r} : a.listOnly = true → atomL a r = none → SemL G (.atom a) r .fail
  | ref {i e r o} : G i = some e → SemL G e r o → SemL G (.ref i) r o
  | seqOk {e₁ e₂ r r' o} : SemL G e₁ r (.ok r') → SemL G e₂ r' o → SemL G (.seq e₁ e₂) r o
  | seqFail {e₁ e₂ r} : SemL G e₁ r .fail → SemL G (.seq e₁ e₂) r .fail
  | altOk {e₁ e₂ r r'} : SemL G e₁ r (.ok r') → SemL G (.alt e₁ e₂) r (.ok r')
  | altFail {e₁ e₂ r o} : SemL G e₁ r .fail → SemL G e₂ r o → SemL G (.alt e₁ e₂) r o
  | starDone {e r} : SemL G e r .fail → SemL G (.star e) r (.ok r)
  | starStep {e r r' o} : SemL G e r (.ok r') → SemL G (.star e) r' o → SemL G (.star e) r o
  | andOk {e r r'} : SemL G e r (.ok r') → SemL G (.and_ e) r (.ok r)
  | andFail {e r} : SemL G e r .fail → SemL G (.and_ e) r .fail
  | notOk {e r r'} : SemL G e r (.ok r') → SemL G (.not_ e) r .fail
  | notFail {e r} : SemL G e r .fail → SemL G (.not_ e) r (.ok r)

/-! ### Atoms: `atomSem` on offsets is `atomL` on the remaining input -/

theorem drop_cons_of_lt (inp : Array UInt8) (p : Nat) (h : p < inp.size) :
    inp.toList.drop p = inp.getD p 0 :: inp.toList.drop (p + 1) := by
  have hl : p < inp.toList.length := by simpa using h
  rw [List.drop_eq_getElem_cons hl]
  congr 1
  simp [Array.getD, h]

theorem drop_nil_of_ge (inp : Array UInt8) (p : Nat) (h : inp.size ≤ p) : inp.toList.drop p = [] := by
  apply List.drop_eq_nil_of_le; simpa using h

theorem length_drop_arr (inp : Array UInt8) (p : Nat) : (inp.toList.drop p).length = inp.size - p := by simp

theorem atomL_suffix {a : Atom} {r r' : List UInt8} (h : atomL a r = some r') : ∃ t, r = t ++ r' := by
  unfold atomL at h
  split at h
  · split at h
    · cases h; exact ⟨[_], rfl⟩
    · cases h
  · split at h
    · split at h
      · cases h; exact ⟨[_], rfl⟩
      · cases h
    · cases h
  · split at h
    · split at h
      · cases h; exact ⟨[_], rfl⟩
      · cases h
    · cases h
  · split at h
    · split at h
      · cases h; exact ⟨[_], rfl⟩
      · cases h
    · cases h
  · split at h
    · cases h; exact ⟨r.take _, (List.take_append_drop _ r).symm⟩
    · cases h
  · split at h
    · cases h; exact ⟨[], rfl⟩
    · cases h
  · cases h; exact ⟨[], rfl⟩
  · cases h
  · split at h
    · split at h
      · cases h; exact ⟨r.take _, (List.take_append_drop _ r).symm⟩
      · cases h
    · cases h
  · cases h

theorem bytesAt_iff_prefix (inp : Array UInt8) (cs : List UInt8) (p : Nat) (h : p + cs.length ≤ inp.size) :
    bytesAt inp p cs = cs.isPrefixOf (inp.toList.drop p) := by
  induction cs generalizing p with
  | nil => simp [bytesAt]
  | cons c cs ih =>
    simp only [List.length_cons] at h
    rw [drop_cons_of_lt inp p (by omega)]
    simp only [bytesAt, List.isPrefixOf]
    rw [ih (p + 1) (by omega)]
    rw [BEq.comm (a := c)]

theorem isPrefixOf_length {cs r : List UInt8} (h : cs.isPrefixOf r = true) : cs.length ≤ r.length := by
  induction cs generalizing r with
  | nil => simp
  | cons c cs ih =>
    cases r with
    | nil => simp [List.isPrefixOf] at h
    | cons d r =>
      simp only [List.isPrefixOf, Bool.and_eq_true] at h
      have := ih h.2
      simp only [List.length_cons]; omega

theorem peekUtf8_len {r : List UInt8} {cp n : Nat} (h : Utf.peekUtf8 r = some (cp, n)) : n ≤ r.length := by
  rw [Utf.peekUtf8_eq_A] at h
  obtain ⟨_, hn, ht⟩ := Utf.utf8A_sound r cp n h
  have := congrArg List.length ht
  rw [List.length_take, Utf.length_encodeUtf8, ← hn] at this
  omega

/-- On the window `[p, inp.size)` the documented accept set of a list-only atom is `atomL` of the
    remaining input. -/
theorem atomSem_eq_atomL (eol : Eol) (inp : Array UInt8) (a : Atom) (ha : a.listOnly = true) (p : Nat)
    (hp : p ≤ inp.size) :
    atomSem eol inp inp.size a p = (atomL a (inp.toList.drop p)).map (fun (r' : List UInt8) => inp.size - r'.length) := by
  have hsz : inp.toList.length = inp.size := by simp
  have hone : ∀ (P : UInt8 → Prop) [DecidablePred P],
      (if p < inp.size ∧ P (inp.getD p 0) then some (p + 1) else none) =
      (match inp.toList.drop p with
        | c :: t => if P c then some t else none
        | [] => (none : Option (List UInt8))).map (fun (r' : List UInt8) => inp.size - r'.length) := by
    intro P _
    by_cases h : p < inp.size
    · rw [drop_cons_of_lt inp p h]
      by_cases hP : P (inp.getD p 0)
      · rw [if_pos ⟨h, hP⟩]
        simp only [hP, if_true, Option.map_some, length_drop_arr]
        congr 1; omega
      · rw [if_neg (fun hh => hP hh.2)]
        simp only [hP, if_false, Option.map_none]
    · rw [drop_nil_of_ge inp p (by omega), if_neg (fun hh => h hh.1)]
      rfl
  cases a with
  | any =>
    have := hone (fun _ => True)
    simpa [atomSem, atomL] using this
  | one found cs =>
    have := hone (fun c => cs.contains c = found)
    simpa [atomSem, atomL] using this
  | range found lo hi =>
    have := hone (fun c => decide (lo ≤ c ∧ c ≤ hi) = found)
    simpa [atomSem, atomL] using this
  | ranges rs single =>
    have := hone (fun c => (rs.any (fun x => x.1 ≤ c && c ≤ x.2) || single == some c) = true)
    simpa [atomSem, atomL] using this
  | string cs =>
    simp only [atomSem, atomL]
    by_cases h : p + cs.length ≤ inp.size
    · rw [bytesAt_iff_prefix inp cs p h]
      by_cases hb : cs.isPrefixOf (inp.toList.drop p) = true
      · simp only [h, hb, and_self, if_true, Option.map_some, List.length_drop]
        congr 1; omega
      · simp [hb]
    · have : ¬ cs.isPrefixOf (inp.toList.drop p) = true := by
        intro hb
        have := isPrefixOf_length hb
        rw [length_drop_arr] at this
        omega
      simp [h, this]
  | eof =>
    simp only [atomSem, atomL]
    by_cases h : p = inp.size
    · subst h
      rw [drop_nil_of_ge inp _ (Nat.le_refl _)]
      simp
    · rw [drop_cons_of_lt inp p (by omega)]
      simp [h]
  | success => simp [atomSem, atomL]; omega
  | failure => simp [atomSem, atomL]
  | utf8Range found lo hi =>
    simp only [atomSem, atomL]
    have htake : (inp.toList.drop p).take (inp.size - p) = inp.toList.drop p := by
      apply List.take_of_length_le; simp
    rw [htake]
    cases hpk : Utf.peekUtf8 (inp.toList.drop p) with
    | none => simp
    | some pr =>
      obtain ⟨cp, n⟩ := pr
      have hn := peekUtf8_len hpk
      rw [length_drop_arr] at hn
      by_cases hc : decide (lo ≤ cp ∧ cp ≤ hi) = found
      · simp only [hc, if_true, Option.map_some, List.length_drop]
        congr 1; omega
      · dsimp only
        rw [if_neg hc, if_neg hc]; rfl
  | istring _ => simp [Atom.listOnly] at ha
  | bytes _ => simp [Atom.listOnly] at ha
  | bof => simp [Atom.listOnly] at ha
  | bol => simp [Atom.listOnly] at ha
  | eol => simp [Atom.listOnly] at ha
  | eolf => simp [Atom.listOnly] at ha
  | everything => simp [Atom.listOnly] at ha
  | require _ => simp [Atom.listOnly] at ha
  | maxDigits _ => simp [Atom.listOnly] at ha
  | repOne _ _ _ => simp [Atom.listOnly] at ha

/-! ### Suffix property and the two directions of the correspondence -/

theorem SemL.suffix {G e r r'} (h : SemL G e r (.ok r')) : ∃ t, r = t ++ r' := by
  generalize ho : LOut.ok r' = o at h
  induction h generalizing r' with
  | eps => cases ho; exact ⟨[], rfl⟩
  | failE => cases ho
  | atomOk _ ha => cases ho; exact atomL_suffix ha
  | atomFail => cases ho
  | ref _ _ ih => exact ih ho
  | seqOk _ _ ih1 ih2 =>
    obtain ⟨t1, h1⟩ := ih1 rfl
    obtain ⟨t2, h2⟩ := ih2 ho
    exact ⟨t1 ++ t2, by rw [h1, h2, List.append_assoc]⟩
  | seqFail => cases ho
  | altOk _ ih => exact ih ho
  | altFail _ _ _ ih2 => exact ih2 ho
  | starDone => cases ho; exact ⟨[], rfl⟩
  | starStep _ _ ih1 ih2 =>
    obtain ⟨t1, h1⟩ := ih1 rfl
    obtain ⟨t2, h2⟩ := ih2 ho
    exact ⟨t1 ++ t2, by rw [h1, h2, List.append_assoc]⟩
  | andOk => cases ho; exact ⟨[], rfl⟩
  | andFail => cases ho
  | notOk => cases ho
  | notFail => cases ho; exact ⟨[], rfl⟩

/-- An outcome of the offset formulation as an outcome on lists. -/
def toL (inp : Array UInt8) : Outcome → LOut
  | .ok q => .ok (inp.toList.drop q)
  | .fail => .fail
  | .err _ => .fail

/-- An outcome on lists as an outcome of the offset formulation. -/
def ofL (inp : Array UInt8) : LOut → Outcome
  | .ok r' => .ok (inp.size - r'.length)
  | .fail => .fail

theorem drop_size_sub {inp : Array UInt8} {a r' : List UInt8} (h : inp.toList = a ++ r') :
    inp.toList.drop (inp.size - r'.length) = r' := by
  have hs : inp.size = a.length + r'.length := by
    have := congrArg List.length h
    simpa using this
  rw [h, hs, Nat.add_sub_cancel]
  exact List.drop_left

/-- List formulation ⟹ offset formulation, in every context in which `r` is the remaining input. -/
theorem SemL.toSem {G eol e r o} (h : SemL G e r o) :
    ∀ (inp : Array UInt8) (p : Nat), p ≤ inp.size → inp.toList.drop p = r →
      Sem G eol inp inp.size e p (ofL inp o) := by
  induction h with
  | @eps r =>
    intro inp p hp hr
    have : inp.size - r.length = p := by rw [← hr, length_drop_arr]; omega
    simp only [ofL, this]; exact .eps
  | failE => intro inp p _ _; exact .failE
  | @atomOk a r r' hl ha =>
    intro inp p hp hr
    refine .atomOk ?_
    rw [atomSem_eq_atomL eol inp a hl p hp, hr, ha]; rfl
  | @atomFail a r hl ha =>
    intro inp p hp hr
    refine .atomFail ?_
    rw [atomSem_eq_atomL eol inp a hl p hp, hr, ha]; rfl
  | ref hG _ ih => intro inp p hp hr; exact .ref hG (ih inp p hp hr)
  | @seqOk e₁ e₂ r r' o h1 _ ih1 ih2 =>
    intro inp p hp hr
    obtain ⟨t, ht⟩ := h1.suffix
    have hin : inp.toList = inp.toList.take p ++ t ++ r' := by
      rw [List.append_assoc, ← ht, ← hr, List.take_append_drop]
    have hd := drop_size_sub hin
    exact .seqOk (ih1 inp p hp hr) (ih2 inp _ (Nat.sub_le _ _) hd)
  | seqFail _ ih => intro inp p hp hr; exact .seqFail (ih inp p hp hr)
  | altOk _ ih => intro inp p hp hr; exact .altOk (ih inp p hp hr)
  | altFail _ _ ih1 ih2 => intro inp p hp hr; exact .altFail (ih1 inp p hp hr) (ih2 inp p hp hr)
  | @starDone e r _ ih =>
    intro inp p hp hr
    have : inp.size - r.length = p := by rw [← hr, length_drop_arr]; omega
    simp only [ofL, this]; exact .starDone (ih inp p hp hr)
  | @starStep e r r' o h1 _ ih1 ih2 =>
    intro inp p hp hr
    obtain ⟨t, ht⟩ := h1.suffix
    have hin : inp.toList = inp.toList.take p ++ t ++ r' := by
      rw [List.append_assoc, ← ht, ← hr, List.take_append_drop]
    have hd := drop_size_sub hin
    exact .starStep (ih1 inp p hp hr) (ih2 inp _ (Nat.sub_le _ _) hd)
  | @andOk e r r' _ ih =>
    intro inp p hp hr
    have : inp.size - r.length = p := by rw [← hr, length_drop_arr]; omega
    simp only [ofL, this]; exact .andOk (ih inp p hp hr)
  | andFail _ ih => intro inp p hp hr; exact .andFail (ih inp p hp hr)
  | notOk _ ih => intro inp p hp hr; exact .notOk (ih inp p hp hr)
  | @notFail e r _ ih =>
    intro inp p hp hr
    have : inp.size - r.length = p := by rw [← hr, length_drop_arr]; omega
    simp only [ofL, this]; exact .notFail (ih inp p hp hr)

/-- What an outcome of the offset formulation says on lists. -/
def LRel (G : Nat → Option PExp) (inp : Array UInt8) (e : PExp) (p : Nat) : Outcome → Prop
  | .ok q => p ≤ q ∧ q ≤ inp.size ∧ SemL G e (inp.toList.drop p) (.ok (inp.toList.drop q))
  | .fail => SemL G e (inp.toList.drop p) .fail
  | .err _ => False

theorem atomL_of_atomSem {eol : Eol} {inp : Array UInt8} {a : Atom} (ha : a.listOnly = true) {p q : Nat}
    (hp : p ≤ inp.size) (h : atomSem eol inp inp.size a p = some q) :
    p ≤ q ∧ q ≤ inp.size ∧ atomL a (inp.toList.drop p) = some (inp.toList.drop q) := by
  rw [atomSem_eq_atomL eol inp a ha p hp] at h
  cases hr : atomL a (inp.toList.drop p) with
  | none => rw [hr] at h; cases h
  | some r' =>
    rw [hr] at h
    simp only [Option.map_some, Option.some.injEq] at h
    obtain ⟨t, ht⟩ := atomL_suffix hr
    have hin : inp.toList = inp.toList.take p ++ t ++ r' := by
      rw [List.append_assoc, ← ht, List.take_append_drop]
    have hd := drop_size_sub hin
    rw [h] at hd
    have hl := congrArg List.length ht
    simp only [List.length_drop, List.length_append, Array.length_toList] at hl
    refine ⟨by omega, by omega, by rw [hd]⟩

/-- Offset formulation ⟹ list formulation, for plain grammars on the whole-input window. -/
theorem Sem.toL {G eol inp} (hG : ∀ i e, G i = some e → e.plain = true) :
    ∀ {endp e p o}, Sem G eol inp endp e p o → endp = inp.size → e.plain = true → p ≤ inp.size →
      LRel G inp e p o := by
  intro endp e p o h
  induction h with
  | eps => intro _ _ hp; exact ⟨Nat.le_refl _, hp, .eps⟩
  | failE => intro _ _ _; exact .failE
  | atomOk ha =>
    intro he hpl hp
    subst he
    obtain ⟨h1, h2, h3⟩ := atomL_of_atomSem hpl hp ha
    exact ⟨h1, h2, .atomOk hpl h3⟩
  | @atomFail endp a p ha =>
    intro he hpl hp
    subst he
    refine .atomFail hpl ?_
    rw [atomSem_eq_atomL eol inp a hpl p hp] at ha
    cases hr : atomL a (inp.toList.drop p) with
    | none => rfl
    | some r' => rw [hr] at ha; cases ha
  | @ref endp i e p r hGi _ ih =>
    intro he _ hp
    have := ih he (hG i e hGi) hp
    cases r with
    | ok q => exact ⟨this.1, this.2.1, .ref hGi this.2.2⟩
    | fail => exact .ref hGi this
    | err b => exact this
  | @seqOk endp e₁ e₂ p q r _ _ ih1 ih2 =>
    intro he hpl hp
    simp only [PExp.plain, Bool.and_eq_true] at hpl
    obtain ⟨a1, a2, a3⟩ := ih1 he hpl.1 hp
    have := ih2 he hpl.2 a2
    cases r with
    | ok q' => exact ⟨Nat.le_trans a1 this.1, this.2.1, .seqOk a3 this.2.2⟩
    | fail => exact .seqOk a3 this
    | err b => exact this
  | seqFail _ ih =>
    intro he hpl hp
    simp only [PExp.plain, Bool.and_eq_true] at hpl
    exact .seqFail (ih he hpl.1 hp)
  | seqErr _ ih =>
    intro he hpl hp
    simp only [PExp.plain, Bool.and_eq_true] at hpl
    exact ih he hpl.1 hp
  | altOk _ ih =>
    intro he hpl hp
    simp only [PExp.plain, Bool.and_eq_true] at hpl
    obtain ⟨a1, a2, a3⟩ := ih he hpl.1 hp
    exact ⟨a1, a2, .altOk a3⟩
  | altErr _ ih =>
    intro he hpl hp
    simp only [PExp.plain, Bool.and_eq_true] at hpl
    exact ih he hpl.1 hp
  | @altFail endp e₁ e₂ p r _ _ ih1 ih2 =>
    intro he hpl hp
    simp only [PExp.plain, Bool.and_eq_true] at hpl
    have a := ih1 he hpl.1 hp
    have := ih2 he hpl.2 hp
    cases r with
    | ok q' => exact ⟨this.1, this.2.1, .altFail a this.2.2⟩
    | fail => exact .altFail a this
    | err b => exact this
  | starDone _ ih =>
    intro he hpl hp
    simp only [PExp.plain] at hpl
    exact ⟨Nat.le_refl _, hp, .starDone (ih he hpl hp)⟩
  | starErr _ ih =>
    intro he hpl hp
    simp only [PExp.plain] at hpl
    exact ih he hpl hp
  | @starStep endp e p q r _ _ ih1 ih2 =>
    intro he hpl hp
    have hpl' := hpl
    simp only [PExp.plain] at hpl'
    obtain ⟨a1, a2, a3⟩ := ih1 he hpl' hp
    have := ih2 he hpl a2
    cases r with
    | ok q' => exact ⟨Nat.le_trans a1 this.1, this.2.1, .starStep a3 this.2.2⟩
    | fail => exact .starStep a3 this
    | err b => exact this
  | andOk _ ih =>
    intro he hpl hp
    simp only [PExp.plain] at hpl
    obtain ⟨_, _, a3⟩ := ih he hpl hp
    exact ⟨Nat.le_refl _, hp, .andOk a3⟩
  | andFail _ ih =>
    intro he hpl hp
    simp only [PExp.plain] at hpl
    exact .andFail (ih he hpl hp)
  | andErr _ ih =>
    intro he hpl hp
    simp only [PExp.plain] at hpl
    exact ih he hpl hp
  | notOk _ ih =>
    intro he hpl hp
    simp only [PExp.plain] at hpl
    obtain ⟨_, _, a3⟩ := ih he hpl hp
    exact .notOk a3
  | notFail _ ih =>
    intro he hpl hp
    simp only [PExp.plain] at hpl
    exact ⟨Nat.le_refl _, hp, .notFail (ih he hpl hp)⟩
  | notErr _ ih =>
    intro he hpl hp
    simp only [PExp.plain] at hpl
    exact ih he hpl hp
  | raise => intro _ hpl _; simp [PExp.plain] at hpl
  | catchFOk => intro _ hpl _; simp [PExp.plain] at hpl
  | catchFFail => intro _ hpl _; simp [PExp.plain] at hpl
  | catchFErr => intro _ hpl _; simp [PExp.plain] at hpl
  | catchNOk => intro _ hpl _; simp [PExp.plain] at hpl
  | catchNFail => intro _ hpl _; simp [PExp.plain] at hpl
  | catchNErr => intro _ hpl _; simp [PExp.plain] at hpl
  | subOk => intro _ hpl _; simp [PExp.plain] at hpl
  | subInnerFail => intro _ hpl _; simp [PExp.plain] at hpl
  | subInnerErr => intro _ hpl _; simp [PExp.plain] at hpl
  | subFail => intro _ hpl _; simp [PExp.plain] at hpl
  | subErr => intro _ hpl _; simp [PExp.plain] at hpl

/-! ### Inversion / introduction in one: what each operator means on lists -/

section Iff
variable {G : Nat → Option PExp}

theorem SemL.ref_iff {i : Nat} {e : PExp} (hG : G i = some e) {r o} : SemL G (.ref i) r o ↔ SemL G e r o := by
  constructor
  · intro h; cases h with
    | ref hG' h' => rw [hG] at hG'; cases hG'; exact h'
  · exact .ref hG

theorem SemL.eps_iff {r o} : SemL G .eps r o ↔ o = .ok r := by
  constructor
  · intro h; cases h; rfl
  · rintro rfl; exact .eps

theorem SemL.seq_ok_iff {a b : PExp} {r r''} :
    SemL G (.seq a b) r (.ok r'') ↔ ∃ r', SemL G a r (.ok r') ∧ SemL G b r' (.ok r'') := by
  constructor
  · intro h; cases h with
    | seqOk h1 h2 => exact ⟨_, h1, h2⟩
  · rintro ⟨_, h1, h2⟩; exact .seqOk h1 h2

theorem SemL.seq_fail_iff {a b : PExp} {r} :
    SemL G (.seq a b) r .fail ↔ SemL G a r .fail ∨ ∃ r', SemL G a r (.ok r') ∧ SemL G b r' .fail := by
  constructor
  · intro h; cases h with
    | seqOk h1 h2 => exact .inr ⟨_, h1, h2⟩
    | seqFail h1 => exact .inl h1
  · rintro (h1 | ⟨_, h1, h2⟩)
    · exact .seqFail h1
    · exact .seqOk h1 h2

theorem SemL.alt_ok_iff {a b : PExp} {r r'} :
    SemL G (.alt a b) r (.ok r') ↔ SemL G a r (.ok r') ∨ (SemL G a r .fail ∧ SemL G b r (.ok r')) := by
  constructor
  · intro h; cases h with
    | altOk h1 => exact .inl h1
    | altFail h1 h2 => exact .inr ⟨h1, h2⟩
  · rintro (h1 | ⟨h1, h2⟩)
    · exact .altOk h1
    · exact .altFail h1 h2

theorem SemL.alt_fail_iff {a b : PExp} {r} :
    SemL G (.alt a b) r .fail ↔ SemL G a r .fail ∧ SemL G b r .fail := by
  constructor
  · intro h; cases h with
    | altFail h1 h2 => exact ⟨h1, h2⟩
  · rintro ⟨h1, h2⟩; exact .altFail h1 h2

theorem SemL.failE_iff {r o} : SemL G .failE r o ↔ o = .fail := by
  constructor
  · intro h; cases h; rfl
  · rintro rfl; exact .failE

theorem SemL.atom_ok_iff {a : Atom} (ha : a.listOnly = true) {r r'} :
    SemL G (.atom a) r (.ok r') ↔ atomL a r = some r' := by
  constructor
  · intro h; cases h with
    | atomOk _ h' => exact h'
  · exact .atomOk ha

theorem SemL.atom_fail_iff {a : Atom} (ha : a.listOnly = true) {r} :
    SemL G (.atom a) r .fail ↔ atomL a r = none := by
  constructor
  · intro h; cases h with
    | atomFail _ h' => exact h'
  · exact .atomFail ha

theorem SemL.not_ok_iff {e : PExp} {r r'} : SemL G (.not_ e) r (.ok r') ↔ r' = r ∧ SemL G e r .fail := by
  constructor
  · intro h; cases h with
    | notFail h' => exact ⟨rfl, h'⟩
  · rintro ⟨rfl, h'⟩; exact .notFail h'

theorem SemL.not_fail_iff {e : PExp} {r} : SemL G (.not_ e) r .fail ↔ ∃ r', SemL G e r (.ok r') := by
  constructor
  · intro h; cases h with
    | notOk h' => exact ⟨_, h'⟩
  · rintro ⟨_, h'⟩; exact .notOk h'

theorem SemL.and_ok_iff {e : PExp} {r r'} : SemL G (.and_ e) r (.ok r') ↔ r' = r ∧ ∃ m, SemL G e r (.ok m) := by
  constructor
  · intro h; cases h with
    | andOk h' => exact ⟨rfl, _, h'⟩
  · rintro ⟨rfl, _, h'⟩; exact .andOk h'

theorem SemL.and_fail_iff {e : PExp} {r} : SemL G (.and_ e) r .fail ↔ SemL G e r .fail := by
  constructor
  · intro h; cases h with
    | andFail h' => exact h'
  · exact .andFail

theorem SemL.star_ok_iff {e : PExp} {r r'} :
    SemL G (.star e) r (.ok r') ↔
      (r' = r ∧ SemL G e r .fail) ∨ ∃ m, SemL G e r (.ok m) ∧ SemL G (.star e) m (.ok r') := by
  constructor
  · intro h; cases h with
    | starDone h' => exact .inl ⟨rfl, h'⟩
    | starStep h1 h2 => exact .inr ⟨_, h1, h2⟩
  · rintro (⟨rfl, h'⟩ | ⟨_, h1, h2⟩)
    · exact .starDone h'
    · exact .starStep h1 h2

theorem SemL.star_not_fail {e : PExp} {r} : ¬ SemL G (.star e) r .fail := by
  intro h
  generalize he : PExp.star e = x at h
  generalize ho : LOut.fail = o at h
  induction h with
  | starDone => cases ho
  | starStep _ _ _ ih2 => cases he; exact ih2 rfl ho
  | _ => cases he

/-- Induction along a successful repetition, from the end. -/
theorem SemL.star_ind {e : PExp} {motive : List UInt8 → Prop} {r r' : List UInt8}
    (h : SemL G (.star e) r (.ok r'))
    (base : SemL G e r' .fail → motive r')
    (step : ∀ a b, SemL G e a (.ok b) → motive b → motive a) : motive r := by
  generalize he : PExp.star e = x at h
  generalize ho : LOut.ok r' = o at h
  induction h with
  | starDone h' => cases he; cases ho; exact base h'
  | starStep h1 _ _ ih2 => cases he; exact step _ _ h1 (ih2 rfl ho)
  | _ => cases he

end Iff

end Pegtl.Spec
