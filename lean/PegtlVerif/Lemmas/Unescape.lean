/-
  Lemmas/Unescape.lean — helper lemmas for property C17 (`Props/C17.lean`).
  Part 1: the mask/shift/or expressions of `utf8_append_utf32` and `unescape_j` as `/`, `%`, `+`.
  Part 2: the Table 3-7 decoder inverts the Table 3-6 encoder and vice versa.
  Part 3: `unhex_char` / `unhex_string` against the positional value; `unescape_c` search.
  Part 4: `utf8_append_utf32` cases and the `unescape_j` loop against `utf16Scan`.
-/
import PegtlVerif.Model.Unescape
import PegtlVerif.Spec.Utf8Enc

namespace Pegtl.Unescape

/-! ### Bit operations as arithmetic -/

theorem shr_eq_div (x k : Nat) : x >>> k = x / 2 ^ k := Nat.shiftRight_eq_div_pow x k

/-- `(x & (m << k)) >> k` with a low mask `m = 2^n - 1`, the shape of every slice in
    `utf8_append_utf32`: `(x &&& M) >>> k = x / 2^k % 2^n` whenever `M >>> k = 2^n - 1`. -/
theorem slice (x M k n : Nat) (hM : M >>> k = 2 ^ n - 1) : (x &&& M) >>> k = x / 2 ^ k % 2 ^ n := by
  rw [Nat.shiftRight_and_distrib, hM, Nat.and_two_pow_sub_one_eq_mod, Nat.shiftRight_eq_div_pow]

theorem and_ff (x : Nat) : x &&& 0xff = x % 256 := Nat.and_two_pow_sub_one_eq_mod x 8
theorem and_3f (x : Nat) : x &&& 0x3f = x % 64 := Nat.and_two_pow_sub_one_eq_mod x 6
theorem and_3ff (x : Nat) : x &&& 0x3ff = x % 1024 := Nat.and_two_pow_sub_one_eq_mod x 10

theorem or_80 : ∀ x, x < 64 → x ||| 0x80 = 0x80 + x := by decide
theorem or_c0 : ∀ x, x < 32 → x ||| 0xc0 = 0xC0 + x := by decide
theorem or_e0 : ∀ x, x < 16 → x ||| 0xe0 = 0xE0 + x := by decide
theorem or_f0 : ∀ x, x < 8 → x ||| 0xf0 = 0xF0 + x := by decide

theorem bits_lo (u : Nat) : (u &&& 0x3f) ||| 0x80 = 0x80 + u % 64 := by
  rw [and_3f]; exact or_80 _ (Nat.mod_lt _ (by decide))

theorem bits_mid6 (u : Nat) : ((u &&& 0xfc0) >>> 6) ||| 0x80 = 0x80 + u / 64 % 64 := by
  rw [slice u 0xfc0 6 6 (by decide)]; exact or_80 _ (Nat.mod_lt _ (by decide))

theorem bits_mid12 (u : Nat) : ((u &&& 0x3f000) >>> 12) ||| 0x80 = 0x80 + u / 4096 % 64 := by
  rw [slice u 0x3f000 12 6 (by decide)]; exact or_80 _ (Nat.mod_lt _ (by decide))

theorem bits2_0 (u : Nat) : ((u &&& 0x7c0) >>> 6) ||| 0xc0 = 0xC0 + u / 64 % 32 := by
  rw [slice u 0x7c0 6 5 (by decide)]; exact or_c0 _ (Nat.mod_lt _ (by decide))

theorem bits3_0 (u : Nat) : ((u &&& 0xf000) >>> 12) ||| 0xe0 = 0xE0 + u / 4096 % 16 := by
  rw [slice u 0xf000 12 4 (by decide)]; exact or_e0 _ (Nat.mod_lt _ (by decide))

theorem bits4_0 (u : Nat) : ((u &&& 0x1c0000) >>> 18) ||| 0xf0 = 0xF0 + u / 262144 % 8 := by
  rw [slice u 0x1c0000 18 3 (by decide)]; exact or_f0 _ (Nat.mod_lt _ (by decide))

/-- The surrogate-pair arithmetic of `unescape_j`. -/
theorem pair_bits (c d : Nat) :
    (((c &&& 0x03ff) <<< 10) ||| (d &&& 0x03ff)) + 0x10000 = 0x10000 + (c % 1024) * 1024 + d % 1024 := by
  rw [and_3ff, and_3ff, ← Nat.shiftLeft_add_eq_or_of_lt (Nat.mod_lt _ (by decide)), Nat.shiftLeft_eq]
  omega

/-! ### Part 2: Table 3-7 decoder vs Table 3-6 encoder -/


theorem toNat_ofNat_lt (n : Nat) (h : n < 256) : (UInt8.ofNat n).toNat = n := by
  rw [UInt8.toNat_ofNat']; omega

theorem decode1 (b0 : UInt8) (t : List UInt8) (h : b0.toNat ≤ 0x7F) :
    decodeUtf8 (b0 :: t) = some (b0.toNat, 1) := by
  simp [decodeUtf8, h]

theorem decode2 (b0 b1 : UInt8) (t : List UInt8) (h0 : 0xC2 ≤ b0.toNat ∧ b0.toNat ≤ 0xDF)
    (h1 : 0x80 ≤ b1.toNat ∧ b1.toNat ≤ 0xBF) :
    decodeUtf8 (b0 :: b1 :: t) = some ((b0.toNat - 0xC0) * 64 + (b1.toNat - 0x80), 2) := by
  have : ¬ b0.toNat ≤ 0x7F := by omega
  simp [decodeUtf8, inR, this, h0, h1]

theorem decode3 (b0 b1 b2 : UInt8) (t : List UInt8) (h0 : 0xE0 ≤ b0.toNat ∧ b0.toNat ≤ 0xEF)
    (h1 : (if b0.toNat = 0xE0 then 0xA0 else 0x80) ≤ b1.toNat ∧
          b1.toNat ≤ (if b0.toNat = 0xED then 0x9F else 0xBF))
    (h2 : 0x80 ≤ b2.toNat ∧ b2.toNat ≤ 0xBF) :
    decodeUtf8 (b0 :: b1 :: b2 :: t) =
      some ((b0.toNat - 0xE0) * 4096 + (b1.toNat - 0x80) * 64 + (b2.toNat - 0x80), 3) := by
  have a : ¬ b0.toNat ≤ 0x7F := by omega
  have b : ¬ (0xC2 ≤ b0.toNat ∧ b0.toNat ≤ 0xDF) := by omega
  simp only [decodeUtf8, inR, a, b, h0, h1, h2]
  simp

theorem decode4 (b0 b1 b2 b3 : UInt8) (t : List UInt8) (h0 : 0xF0 ≤ b0.toNat ∧ b0.toNat ≤ 0xF4)
    (h1 : (if b0.toNat = 0xF0 then 0x90 else 0x80) ≤ b1.toNat ∧
          b1.toNat ≤ (if b0.toNat = 0xF4 then 0x8F else 0xBF))
    (h2 : 0x80 ≤ b2.toNat ∧ b2.toNat ≤ 0xBF) (h3 : 0x80 ≤ b3.toNat ∧ b3.toNat ≤ 0xBF) :
    decodeUtf8 (b0 :: b1 :: b2 :: b3 :: t) =
      some ((b0.toNat - 0xF0) * 262144 + (b1.toNat - 0x80) * 4096 + (b2.toNat - 0x80) * 64
            + (b3.toNat - 0x80), 4) := by
  have a : ¬ b0.toNat ≤ 0x7F := by omega
  have b : ¬ (0xC2 ≤ b0.toNat ∧ b0.toNat ≤ 0xDF) := by omega
  have c : ¬ (0xE0 ≤ b0.toNat ∧ b0.toNat ≤ 0xEF) := by omega
  simp only [decodeUtf8, inR, a, b, c, h0, h1, h2, h3]
  simp

theorem encode_decode (cp : Nat) (t : List UInt8) (h : isScalar cp) :
    decodeUtf8 (encodeUtf8 cp ++ t) = some (cp, encLen cp) := by
  unfold isScalar at h
  unfold encodeUtf8 encLen
  by_cases h1 : cp < 0x80
  · simp only [h1, if_true, List.cons_append, List.nil_append]
    rw [decode1 _ _ (by rw [toNat_ofNat_lt cp (by omega)]; omega), toNat_ofNat_lt cp (by omega)]
  · by_cases h2 : cp < 0x800
    · simp only [h1, h2, if_true, if_false, List.cons_append, List.nil_append]
      have e0 := toNat_ofNat_lt (0xC0 + cp / 64) (by omega)
      have e1 := toNat_ofNat_lt (0x80 + cp % 64) (by omega)
      rw [decode2 _ _ _ (by rw [e0]; omega) (by rw [e1]; omega), e0, e1]
      simp only [Option.some.injEq, Prod.mk.injEq, and_true]; omega
    · by_cases h3 : cp < 0x10000
      · simp only [h1, h2, h3, if_true, if_false, List.cons_append, List.nil_append]
        have e0 := toNat_ofNat_lt (0xE0 + cp / 4096) (by omega)
        have e1 := toNat_ofNat_lt (0x80 + cp / 64 % 64) (by omega)
        have e2 := toNat_ofNat_lt (0x80 + cp % 64) (by omega)
        rw [decode3 _ _ _ _ (by rw [e0]; omega) (by rw [e0, e1]; split <;> split <;> omega) (by rw [e2]; omega), e0, e1, e2]
        simp only [Option.some.injEq, Prod.mk.injEq, and_true]; omega
      · simp only [h1, h2, h3, if_false, List.cons_append, List.nil_append]
        have e0 := toNat_ofNat_lt (0xF0 + cp / 262144) (by omega)
        have e1 := toNat_ofNat_lt (0x80 + cp / 4096 % 64) (by omega)
        have e2 := toNat_ofNat_lt (0x80 + cp / 64 % 64) (by omega)
        have e3 := toNat_ofNat_lt (0x80 + cp % 64) (by omega)
        rw [decode4 _ _ _ _ _ (by rw [e0]; omega) (by rw [e0, e1]; split <;> split <;> omega) (by rw [e2]; omega) (by rw [e3]; omega), e0, e1, e2, e3]
        simp only [Option.some.injEq, Prod.mk.injEq, and_true]; omega


theorem ofNat_eq (b : UInt8) (n : Nat) (h : n = b.toNat) : UInt8.ofNat n = b := by
  subst h; exact UInt8.ofNat_toNat

theorem decode_unique (bs : List UInt8) (cp n : Nat) (h : decodeUtf8 bs = some (cp, n)) :
    isScalar cp ∧ n = encLen cp ∧ bs.take n = encodeUtf8 cp := by
  unfold isScalar encLen encodeUtf8
  cases bs with
  | nil => simp [decodeUtf8] at h
  | cons b0 rest =>
    have l0 := b0.toNat_lt
    unfold decodeUtf8 at h
    simp only at h
    split at h
    · -- one byte
      simp only [Option.some.injEq, Prod.mk.injEq] at h
      obtain ⟨rfl, rfl⟩ := h
      have : b0.toNat < 0x80 := by omega
      simp only [this, if_true]
      refine ⟨by omega, trivial, ?_⟩
      simp [UInt8.ofNat_toNat]
    · split at h
      · -- two bytes
        split at h
        · rename_i b1 t
          have l1 := b1.toNat_lt
          split at h
          · rename_i hb1
            simp only [inR, Bool.and_eq_true, decide_eq_true_eq] at hb1
            simp only [Option.some.injEq, Prod.mk.injEq] at h
            obtain ⟨rfl, rfl⟩ := h
            have a1 : ¬ (b0.toNat - 0xC0) * 64 + (b1.toNat - 0x80) < 0x80 := by omega
            have a2 : (b0.toNat - 0xC0) * 64 + (b1.toNat - 0x80) < 0x800 := by omega
            simp only [a1, a2, if_true, if_false]
            refine ⟨by omega, trivial, ?_⟩
            simp only [List.take_succ_cons, List.take_zero]
            rw [ofNat_eq b0 _ (by omega), ofNat_eq b1 _ (by omega)]
          · simp at h
        · simp at h
      · split at h
        · -- three bytes
          split at h
          · rename_i b1 b2 t
            have l1 := b1.toNat_lt
            have l2 := b2.toNat_lt
            simp only [Option.ite_none_right_eq_some, Option.some.injEq, Prod.mk.injEq, inR,
              Bool.and_eq_true, decide_eq_true_eq] at h
            · obtain ⟨⟨⟨hlo, hhi⟩, h2lo, h2hi⟩, rfl, rfl⟩ := h
              have hlo' : 0x80 ≤ b1.toNat ∧ (b0.toNat = 0xE0 → 0xA0 ≤ b1.toNat) := by
                split at hlo <;> omega
              have hhi' : b1.toNat ≤ 0xBF ∧ (b0.toNat = 0xED → b1.toNat ≤ 0x9F) := by
                split at hhi <;> omega
              have a1 : ¬ (b0.toNat - 0xE0) * 4096 + (b1.toNat - 0x80) * 64 + (b2.toNat - 0x80) < 0x80 := by omega
              have a2 : ¬ (b0.toNat - 0xE0) * 4096 + (b1.toNat - 0x80) * 64 + (b2.toNat - 0x80) < 0x800 := by omega
              have a3 : (b0.toNat - 0xE0) * 4096 + (b1.toNat - 0x80) * 64 + (b2.toNat - 0x80) < 0x10000 := by omega
              simp only [a1, a2, a3, if_true, if_false]
              refine ⟨by omega, trivial, ?_⟩
              simp only [List.take_succ_cons, List.take_zero]
              rw [ofNat_eq b0 _ (by omega), ofNat_eq b1 _ (by omega), ofNat_eq b2 _ (by omega)]
          · simp at h
        · split at h
          · -- four bytes
            split at h
            · rename_i b1 b2 b3 t
              have l1 := b1.toNat_lt
              have l2 := b2.toNat_lt
              have l3 := b3.toNat_lt
              simp only [Option.ite_none_right_eq_some, Option.some.injEq, Prod.mk.injEq, inR,
                Bool.and_eq_true, decide_eq_true_eq] at h
              · obtain ⟨⟨⟨⟨hlo, hhi⟩, h2lo, h2hi⟩, h3lo, h3hi⟩, rfl, rfl⟩ := h
                have hlo' : 0x80 ≤ b1.toNat ∧ (b0.toNat = 0xF0 → 0x90 ≤ b1.toNat) := by
                  split at hlo <;> omega
                have hhi' : b1.toNat ≤ 0xBF ∧ (b0.toNat = 0xF4 → b1.toNat ≤ 0x8F) := by
                  split at hhi <;> omega
                have a1 : ¬ (b0.toNat - 0xF0) * 262144 + (b1.toNat - 0x80) * 4096 + (b2.toNat - 0x80) * 64 + (b3.toNat - 0x80) < 0x80 := by omega
                have a2 : ¬ (b0.toNat - 0xF0) * 262144 + (b1.toNat - 0x80) * 4096 + (b2.toNat - 0x80) * 64 + (b3.toNat - 0x80) < 0x800 := by omega
                have a3 : ¬ (b0.toNat - 0xF0) * 262144 + (b1.toNat - 0x80) * 4096 + (b2.toNat - 0x80) * 64 + (b3.toNat - 0x80) < 0x10000 := by omega
                simp only [a1, a2, a3, if_false]
                refine ⟨by omega, trivial, ?_⟩
                simp only [List.take_succ_cons, List.take_zero]
                rw [ofNat_eq b0 _ (by omega), ofNat_eq b1 _ (by omega), ofNat_eq b2 _ (by omega), ofNat_eq b3 _ (by omega)]
            · simp at h
          · simp at h

/-! ### Part 3: hexadecimal -/


/-! ### hex -/

theorem unhexChar_table_nat : ∀ n, n < 256 → unhexChar (UInt8.ofNat n) = hexDigitValue (UInt8.ofNat n) := by
  decide +kernel

theorem unhexChar_eq (c : UInt8) : unhexChar c = hexDigitValue c := by
  have := unhexChar_table_nat c.toNat c.toNat_lt
  rwa [UInt8.ofNat_toNat] at this

theorem xdigit_table_nat : ∀ n, n < 256 → isXDigit (UInt8.ofNat n) = (hexDigitValue (UInt8.ofNat n)).isSome := by
  decide +kernel

theorem isXDigit_iff (c : UInt8) : isXDigit c = (hexDigitValue c).isSome := by
  have := xdigit_table_nat c.toNat c.toNat_lt
  rwa [UInt8.ofNat_toNat] at this

theorem hexVal_lt_nat : ∀ n, n < 256 → hexVal (UInt8.ofNat n) < 16 := by decide +kernel

theorem hexVal_lt (c : UInt8) : hexVal c < 16 := by
  have := hexVal_lt_nat c.toNat c.toNat_lt
  rwa [UInt8.ofNat_toNat] at this

theorem unhexChar_of_xdigit (c : UInt8) (h : isXDigit c = true) : unhexChar c = some (hexVal c) := by
  rw [unhexChar_eq]; rw [isXDigit_iff] at h
  unfold hexVal
  cases hd : hexDigitValue c with
  | none => simp [hd] at h
  | some v => simp

/-- value with an initial accumulator -/
def value16From (a : Nat) (ds : List UInt8) : Nat := ds.foldl (fun a d => 16 * a + hexVal d) a

theorem value16_eq (ds : List UInt8) : value16 ds = value16From 0 ds := rfl

theorem value16From_mod (M : Nat) (ds : List UInt8) : ∀ a, value16From a ds % M = value16From (a % M) ds % M := by
  induction ds with
  | nil => intro a; simp [value16From]
  | cons c cs ih =>
    intro a
    simp only [value16From, List.foldl_cons] at ih ⊢
    rw [ih (16 * a + hexVal c), ih (16 * (a % M) + hexVal c)]
    congr 2
    rw [Nat.add_mod, Nat.mul_mod, Nat.add_mod (16 * (a % M)), Nat.mul_mod 16 (a % M), Nat.mod_mod]

theorem unhexStringLoop_eq (w : Nat) (ds : List UInt8) (hx : ∀ c ∈ ds, isXDigit c = true) :
    ∀ r, r < 2 ^ w → unhexStringLoop w ds r = some (value16From r ds % 2 ^ w) := by
  induction ds with
  | nil => intro r hr; simp [unhexStringLoop, value16From, Nat.mod_eq_of_lt hr]
  | cons c cs ih =>
    intro r hr
    have hc := unhexChar_of_xdigit c (hx c (by simp))
    have hpos : 0 < 2 ^ w := Nat.pos_of_ne_zero (by simp)
    simp only [unhexStringLoop, hc]
    rw [ih (fun c' h' => hx c' (by simp [h'])) _ (Nat.mod_lt _ hpos)]
    simp only [value16From, List.foldl_cons]
    have e : ((r <<< 4) % 2 ^ w + hexVal c) % 2 ^ w = (16 * r + hexVal c) % 2 ^ w := by
      rw [Nat.shiftLeft_eq, Nat.mod_add_mod, Nat.mul_comm]
    rw [e]
    have := value16From_mod (2 ^ w) cs (16 * r + hexVal c)
    simp only [value16From] at this
    rw [← this]

theorem value16From_lt (ds : List UInt8) : ∀ a, value16From a ds < (a + 1) * 16 ^ ds.length := by
  induction ds with
  | nil => intro a; simp [value16From]
  | cons c cs ih =>
    intro a
    simp only [value16From, List.foldl_cons, List.length_cons] at ih ⊢
    have h1 := ih (16 * a + hexVal c)
    have h2 := hexVal_lt c
    calc _ < (16 * a + hexVal c + 1) * 16 ^ cs.length := h1
      _ ≤ ((a + 1) * 16) * 16 ^ cs.length := Nat.mul_le_mul_right _ (by omega)
      _ = (a + 1) * 16 ^ (cs.length + 1) := by rw [Nat.pow_succ, Nat.mul_assoc, Nat.mul_comm 16]

theorem value16_lt (ds : List UInt8) : value16 ds < 16 ^ ds.length := by
  have := value16From_lt ds 0
  simpa [value16_eq] using this

theorem unhexString_mod (w : Nat) (ds : List UInt8) (hx : ∀ c ∈ ds, isXDigit c = true) :
    unhexString w ds = some (value16 ds % 2 ^ w) := by
  unfold unhexString
  rw [unhexStringLoop_eq w ds hx 0 (Nat.pos_of_ne_zero (by simp)), value16_eq]

theorem unhexString_exact (w : Nat) (ds : List UInt8) (hx : ∀ c ∈ ds, isXDigit c = true)
    (hw : 4 * ds.length ≤ w) : unhexString w ds = some (value16 ds) := by
  rw [unhexString_mod w ds hx]
  congr 1
  apply Nat.mod_eq_of_lt
  calc value16 ds < 16 ^ ds.length := value16_lt ds
    _ = 2 ^ (4 * ds.length) := by rw [Nat.pow_mul]
    _ ≤ 2 ^ w := Nat.pow_le_pow_right (by decide) hw



/-! ### unescape_c -/

theorem applyTwo_first (qs rs : List UInt8) (hlen : qs.length = rs.length) (i : Nat) (hi : i < qs.length)
    (hfirst : ∀ j (hj : j < i), qs[j]'(by omega) ≠ qs[i]) :
    unescapeCApplyTwo qs rs qs[i] = some (rs[i]'(by omega)) := by
  induction qs generalizing rs i with
  | nil => simp at hi
  | cons q qt ih =>
    cases rs with
    | nil => simp at hlen
    | cons r rt =>
      cases i with
      | zero => simp [unescapeCApplyTwo]
      | succ k =>
        have h0 : q ≠ (q :: qt)[k + 1] := hfirst 0 (by omega)
        simp only [List.getElem_cons_succ] at h0 ⊢
        simp only [unescapeCApplyTwo, beq_iff_eq, h0, if_false]
        apply ih rt (by simpa using hlen) k (by simpa using hi)
        intro j hj
        have := hfirst (j + 1) (by omega)
        simpa using this

theorem applyTwo_none (qs rs : List UInt8) (c : UInt8) (h : c ∉ qs) : unescapeCApplyTwo qs rs c = none := by
  induction qs generalizing rs with
  | nil => simp [unescapeCApplyTwo]
  | cons q qt ih =>
    cases rs with
    | nil => simp [unescapeCApplyTwo]
    | cons r rt =>
      have : q ≠ c := fun e => h (by simp [e])
      simp only [unescapeCApplyTwo, beq_iff_eq, this, if_false]
      exact ih rt (fun hm => h (by simp [hm]))

theorem cTable_nat : ∀ n, n < 256 →
    unescapeCApplyTwo cEscQ cEscR (UInt8.ofNat n) = tableLookup cEscapeTable (UInt8.ofNat n) := by
  decide +kernel

theorem jTable_nat : ∀ n, n < 256 →
    unescapeCApplyTwo jEscQ jEscR (UInt8.ofNat n) = tableLookup jsonEscapeTable (UInt8.ofNat n) := by
  decide +kernel


/-! ### Part 4: `utf8_append_utf32` and the loop of `unescape_j` -/



/-- bytes from the pointer `b` of `unescape_j` when the groups `dss` are still to be processed -/
def bodyJ : List (List UInt8) → List UInt8
  | [] => []
  | ds :: rest => ds ++ jsonEscapes rest

theorem jsonEscapes_cons (ds : List UInt8) (rest : List (List UInt8)) :
    jsonEscapes (ds :: rest) = 92 :: 117 :: ds ++ jsonEscapes rest := by
  simp [jsonEscapes]

theorem jsonEscapes_cons' (ds : List UInt8) (rest : List (List UInt8)) :
    jsonEscapes (ds :: rest) = 92 :: 117 :: bodyJ (ds :: rest) := by
  simp [jsonEscapes, bodyJ]

theorem length_jsonEscapes (dss : List (List UInt8)) (h : ∀ ds ∈ dss, Group4 ds) :
    (jsonEscapes dss).length = 6 * dss.length := by
  induction dss with
  | nil => simp [jsonEscapes]
  | cons ds rest ih =>
    rw [jsonEscapes_cons]
    have := (h ds (by simp)).1
    have := ih (fun d hd => h d (by simp [hd]))
    simp only [List.length_cons, List.length_append]; omega

theorem group4_value (ds : List UInt8) (h : Group4 ds) :
    unhexString 32 ds = some (value16 ds) ∧ value16 ds < 0x10000 := by
  refine ⟨unhexString_exact 32 ds h.2 (by rw [h.1]; decide), ?_⟩
  have := value16_lt ds
  rw [h.1] at this
  exact this

theorem bodyJ_take (ds : List UInt8) (rest : List (List UInt8)) (h : ds.length = 4) :
    (bodyJ (ds :: rest)).take 4 = ds := by
  rw [bodyJ, List.take_left' h]

theorem bodyJ_drop6 (ds : List UInt8) (rest : List (List UInt8)) (h : ds.length = 4) :
    (bodyJ (ds :: rest)).drop 6 = bodyJ rest := by
  cases rest with
  | nil => simp [bodyJ, jsonEscapes, h]
  | cons d r =>
    rw [bodyJ, jsonEscapes_cons', List.drop_append, h]
    simp [List.drop_eq_nil_of_le, h]

theorem bodyJ_length (ds : List UInt8) (rest : List (List UInt8)) (h : ds.length = 4)
    (hr : ∀ d ∈ rest, Group4 d) : (bodyJ (ds :: rest)).length = 4 + 6 * rest.length := by
  rw [bodyJ, List.length_append, length_jsonEscapes rest hr, h]

theorem loop_unfold (rest s : List UInt8) (hne : rest ≠ []) :
    unescapeJLoop rest s =
      match unhexString 32 (rest.take 4) with
      | none => none
      | some c =>
        match unescapeJPair rest c with
        | none => none
        | some (some cp) => unescapeJLoop (rest.drop 12) (utf8AppendUtf32 s cp).2
        | some none =>
          match utf8AppendUtf32 s c with
          | (false, s') => some (false, s')
          | (true, s') => unescapeJLoop (rest.drop 6) s' := by
  cases rest with
  | nil => exact absurd rfl hne
  | cons r0 rt => rw [unescapeJLoop]; rfl

theorem pair_eq (ds : List UInt8) (rest : List (List UInt8)) (h : Group4 ds)
    (hr : ∀ d ∈ rest, Group4 d) (c : Nat) :
    unescapeJPair (bodyJ (ds :: rest)) c =
      match rest with
      | [] => some none
      | d :: _ =>
        if isHighSurrogate c ∧ isLowSurrogate (value16 d) then
          some (some (combineSurrogates c (value16 d)))
        else some none := by
  unfold unescapeJPair
  rw [bodyJ_length ds rest h.1 hr, bodyJ_drop6 ds rest h.1]
  cases rest with
  | nil => simp
  | cons d r =>
    have hd := hr d (by simp)
    rw [bodyJ_take d r hd.1, (group4_value d hd).1]
    simp only [List.length_cons]
    by_cases hc : isHighSurrogate c
    · have hc' : 0xd800 ≤ c ∧ c ≤ 0xdbff := hc
      by_cases hl : isLowSurrogate (value16 d)
      · have hl' : 0xdc00 ≤ value16 d ∧ value16 d ≤ 0xdfff := hl
        have e : (((c &&& 0x03ff) <<< 10) ||| (value16 d &&& 0x03ff)) + 0x10000 = combineSurrogates c (value16 d) := by
          rw [pair_bits]; unfold combineSurrogates; omega
        rw [if_pos (by omega), if_pos hl', if_pos ⟨hc, hl⟩, e]
      · have hl' : ¬ (0xdc00 ≤ value16 d ∧ value16 d ≤ 0xdfff) := hl
        rw [if_pos (by omega), if_neg hl', if_neg (fun x => hl x.2)]
    · have hc' : ¬ (0xd800 ≤ c ∧ c ≤ 0xdbff) := hc
      rw [if_neg (fun x => hc' ⟨x.1, x.2.1⟩), if_neg (fun x => hc x.1)]

theorem append_scalar (s : List UInt8) (cp : Nat) (h : isScalar cp) :
    utf8AppendUtf32 s cp = (true, s ++ encodeUtf8 cp) := by
  unfold isScalar at h
  unfold utf8AppendUtf32 encodeUtf8
  simp only [bits_lo, bits_mid6, bits_mid12, bits2_0, bits3_0, bits4_0, and_ff]
  by_cases h1 : cp ≤ 0x7f
  · have : cp % 256 = cp := by omega
    simp [h1, this, show cp < 0x80 by omega]
  · by_cases h2 : cp ≤ 0x7ff
    · have : cp / 64 % 32 = cp / 64 := by omega
      simp [h1, h2, this, show ¬ cp < 0x80 by omega, show cp < 0x800 by omega]
    · by_cases h3 : cp ≤ 0xffff
      · have : cp / 4096 % 16 = cp / 4096 := by omega
        have hs : ¬ (cp ≥ 0xd800 ∧ cp ≤ 0xdfff) := by omega
        simp [h1, h2, h3, this, hs, show ¬ cp < 0x80 by omega, show ¬ cp < 0x800 by omega, show cp < 0x10000 by omega]
      · have : cp / 262144 % 8 = cp / 262144 := by omega
        simp [h1, h2, h3, this, show cp ≤ 0x10ffff by omega, show ¬ cp < 0x80 by omega, show ¬ cp < 0x800 by omega, show ¬ cp < 0x10000 by omega]

theorem append_nonscalar (s : List UInt8) (cp : Nat) (h : ¬ isScalar cp) :
    utf8AppendUtf32 s cp = (false, s) := by
  unfold isScalar at h
  unfold utf8AppendUtf32
  by_cases h3 : cp ≤ 0xffff
  · simp [show ¬ cp ≤ 0x7f by omega, show ¬ cp ≤ 0x7ff by omega, h3, show cp ≥ 0xd800 ∧ cp ≤ 0xdfff by omega]
  · simp [show ¬ cp ≤ 0x7f by omega, show ¬ cp ≤ 0x7ff by omega, h3, show ¬ cp ≤ 0x10ffff by omega]

/-- The loop of `unescape_j` on the text of well-formed escapes computes `utf16Scan`. -/
theorem loop_eq : ∀ (dss : List (List UInt8)), (∀ ds ∈ dss, Group4 ds) → ∀ s : List UInt8,
    unescapeJLoop (bodyJ dss) s =
      some ((utf16Scan (dss.map value16)).2,
            s ++ (utf16Scan (dss.map value16)).1.flatMap encodeUtf8)
  | [], _, s => by simp [bodyJ, unescapeJLoop, utf16Scan]
  | [ds], h, s => by
    have hd := h ds (by simp)
    have hv := group4_value ds hd
    have hne : bodyJ [ds] ≠ [] := by
      intro e; have := congrArg List.length e; rw [bodyJ_length ds [] hd.1 (by simp)] at this; simp at this
    rw [loop_unfold _ _ hne, bodyJ_take ds [] hd.1, hv.1]
    simp only
    rw [pair_eq ds [] hd (by simp)]
    simp only [List.map_cons, List.map_nil, utf16Scan]
    by_cases hs : isHighSurrogate (value16 ds) ∨ isLowSurrogate (value16 ds)
    · have : ¬ isScalar (value16 ds) := by
        unfold isScalar; unfold isHighSurrogate isLowSurrogate at hs; omega
      rw [append_nonscalar s _ this, if_pos hs]; simp
    · have : isScalar (value16 ds) := by
        unfold isScalar; unfold isHighSurrogate isLowSurrogate at hs; omega
      rw [append_scalar s _ this, if_neg hs]
      simp only
      rw [bodyJ_drop6 ds [] hd.1]
      simp [bodyJ, unescapeJLoop]
  | ds :: d :: r, h, s => by
    have hd := h ds (by simp)
    have hd' := h d (by simp)
    have hr : ∀ x ∈ d :: r, Group4 x := fun x hx => h x (by simp [hx])
    have hr' : ∀ x ∈ r, Group4 x := fun x hx => h x (by simp [hx])
    have hv := group4_value ds hd
    have hv' := group4_value d hd'
    have hne : bodyJ (ds :: d :: r) ≠ [] := by
      intro e; have := congrArg List.length e; rw [bodyJ_length ds _ hd.1 hr] at this; simp at this
    rw [loop_unfold _ _ hne, bodyJ_take ds _ hd.1, hv.1]
    simp only
    rw [pair_eq ds _ hd hr]
    simp only [List.map_cons, utf16Scan]
    have d12 : (bodyJ (ds :: d :: r)).drop 12 = bodyJ r := by
      rw [show 12 = 6 + 6 from rfl, ← List.drop_drop, bodyJ_drop6 ds _ hd.1, bodyJ_drop6 d _ hd'.1]
    by_cases hh : isHighSurrogate (value16 ds)
    · have hh' : 0xD800 ≤ value16 ds ∧ value16 ds ≤ 0xDBFF := hh
      by_cases hl : isLowSurrogate (value16 d)
      · have hl' : 0xDC00 ≤ value16 d ∧ value16 d ≤ 0xDFFF := hl
        have sc : isScalar (combineSurrogates (value16 ds) (value16 d)) := by
          unfold isScalar combineSurrogates; omega
        rw [if_pos ⟨hh, hl⟩, if_pos hh, if_pos hl]
        simp only
        rw [d12, append_scalar s _ sc, loop_eq r hr']
        simp
      · have : ¬ isScalar (value16 ds) := by unfold isScalar; omega
        rw [if_neg (fun x => hl x.2), if_pos hh, if_neg hl]
        simp only
        rw [append_nonscalar s _ this]; simp
    · have hh' : ¬ (0xD800 ≤ value16 ds ∧ value16 ds ≤ 0xDBFF) := hh
      rw [if_neg (fun x => hh x.1), if_neg hh]
      simp only
      by_cases hl : isLowSurrogate (value16 ds)
      · have hl' : 0xDC00 ≤ value16 ds ∧ value16 ds ≤ 0xDFFF := hl
        have : ¬ isScalar (value16 ds) := by unfold isScalar; omega
        rw [append_nonscalar s _ this, if_pos hl]; simp
      · have hl' : ¬ (0xDC00 ≤ value16 ds ∧ value16 ds ≤ 0xDFFF) := hl
        have : isScalar (value16 ds) := by unfold isScalar; omega
        rw [append_scalar s _ this, if_neg hl]
        simp only
        rw [bodyJ_drop6 ds _ hd.1, loop_eq (d :: r) hr]
        simp [List.map_cons]

theorem unescapeJ_eq (dss : List (List UInt8)) (hne : dss ≠ []) (h : ∀ ds ∈ dss, Group4 ds)
    (s : List UInt8) :
    unescapeJ ((jsonEscapes dss).drop 1) s =
      some ((utf16Scan (dss.map value16)).2,
            s ++ (utf16Scan (dss.map value16)).1.flatMap encodeUtf8) := by
  cases dss with
  | nil => exact absurd rfl hne
  | cons ds rest =>
    have hd := h ds (by simp)
    have hr : ∀ x ∈ rest, Group4 x := fun x hx => h x (by simp [hx])
    have hl := bodyJ_length ds rest hd.1 hr
    unfold unescapeJ
    rw [jsonEscapes_cons', List.drop_succ_cons, List.drop_zero, List.length_cons, hl,
      if_pos (by omega), List.drop_succ_cons, List.drop_zero]
    exact loop_eq (ds :: rest) h s


theorem scan_no_surrogates (units : List Nat)
    (h : ∀ u ∈ units, ¬ isHighSurrogate u ∧ ¬ isLowSurrogate u) : utf16Scan units = (units, true) := by
  induction units with
  | nil => simp [utf16Scan]
  | cons u rest ih =>
    have hu := h u (by simp)
    have ih := ih (fun x hx => h x (by simp [hx]))
    cases rest with
    | nil => simp [utf16Scan, hu.1, hu.2]
    | cons l r => simp only [utf16Scan, hu.1, hu.2, if_false, ih]

end Pegtl.Unescape
