/-
  Lemmas/Analyze.lean — facts about the DFS of Model/Analyze.lean (`work`, `problems`) that do not
  mention the matcher: what a run that found no problem has visited, fuel monotonicity, totality.
-/
import PegtlVerif.Model.Analyze

namespace Pegtl
namespace Analyze

abbrev WFun := AId → Bool → Option (Bool × Nat)

/-- What the `a = a || work( r, accum || a )` loop did when it found no problem (`accum = false`):
    it called `work` on a prefix of the sub-rules, each call returned "does not consume" except
    possibly the last one, and no call found a problem. -/
inductive OrVisit (w : WFun) : List AId → Bool → Prop
  | nil : OrVisit w [] false
  | stop {r : AId} {rs : List AId} : w r false = some (true, 0) → OrVisit w (r :: rs) true
  | skip {r : AId} {rs : List AId} {a : Bool} : w r false = some (false, 0) → OrVisit w rs a → OrVisit w (r :: rs) a

/-- What the `a = work( r, accum ) && a` loop did when it found no problem: every sub-rule was
    visited, and the result is true only if every call returned true. -/
def AndVisit (w : WFun) (rs : List AId) (a : Bool) : Prop :=
  ∀ r ∈ rs, ∃ b, w r false = some (b, 0) ∧ (a = true → b = true)

theorem orLoop_zero {w : WFun} : ∀ (rs : List AId) (a0 : Bool) (p : Nat) (a : Bool),
    orLoop w false rs a0 p = some (a, 0) → p = 0 ∧ (a0 = true → a = true) ∧ (a0 = false → OrVisit w rs a) := by
  intro rs
  induction rs with
  | nil =>
    intro a0 p a h
    simp only [orLoop, Option.some.injEq, Prod.mk.injEq] at h
    obtain ⟨rfl, rfl⟩ := h
    exact ⟨rfl, fun h => h, fun h => h ▸ OrVisit.nil⟩
  | cons r rs ih =>
    intro a0 p a h
    simp only [orLoop] at h
    cases a0 with
    | true =>
      simp only [if_true] at h
      have ⟨hp, ha, _⟩ := ih _ _ _ h
      exact ⟨hp, fun _ => ha rfl, fun hc => absurd hc (by simp)⟩
    | false =>
      simp only [Bool.false_eq_true, if_false, Bool.or_self] at h
      split at h
      · exact absurd h (by simp)
      · rename_i b q hw
        have ⟨hp, ha, hv⟩ := ih _ _ _ h
        have hp0 : p = 0 := by omega
        have hq0 : q = 0 := by omega
        subst hq0
        refine ⟨hp0, fun hc => absurd hc (by simp), fun _ => ?_⟩
        cases b with
        | true =>
          have : a = true := ha rfl
          subst this
          exact OrVisit.stop hw
        | false => exact OrVisit.skip hw (hv rfl)

theorem andLoop_zero {w : WFun} : ∀ (rs : List AId) (a0 : Bool) (p : Nat) (a : Bool),
    andLoop w false rs a0 p = some (a, 0) → p = 0 ∧ (a = true → a0 = true) ∧ AndVisit w rs a := by
  intro rs
  induction rs with
  | nil =>
    intro a0 p a h
    simp only [andLoop, Option.some.injEq, Prod.mk.injEq] at h
    obtain ⟨rfl, rfl⟩ := h
    exact ⟨rfl, fun h => h, fun r hr => absurd hr (by simp)⟩
  | cons r rs ih =>
    intro a0 p a h
    simp only [andLoop] at h
    split at h
    · exact absurd h (by simp)
    · rename_i b q hw
      have ⟨hp, ha, hv⟩ := ih _ _ _ h
      have hp0 : p = 0 := by omega
      have hq0 : q = 0 := by omega
      subst hq0
      refine ⟨hp0, fun hc => ?_, ?_⟩
      · have := ha hc
        simp only [Bool.and_eq_true] at this
        exact this.2
      · intro x hx
        rcases List.mem_cons.mp hx with rfl | hx
        · refine ⟨b, hw, fun hc => ?_⟩
          have := ha hc
          simp only [Bool.and_eq_true] at this
          exact this.1
        · exact hv x hx

/-- One level of a DFS that found no problem. -/
theorem work_zero_unfold {A : AGrammar} {f : Nat} {S : List AId} {e : AId} {b : Bool}
    (h : work A (f + 1) S e false = some (b, 0)) :
    e ∉ S ∧
    match (A.ent e).ty with
    | .any => b = true ∧ ∃ a, OrVisit (work A f (e :: S)) (A.ent e).subs a
    | .opt => b = false ∧ ∃ a, OrVisit (work A f (e :: S)) (A.ent e).subs a
    | .seq => OrVisit (work A f (e :: S)) (A.ent e).subs b
    | .sor => AndVisit (work A f (e :: S)) (A.ent e).subs b := by
  simp only [work] at h
  split at h
  · simp at h
  · rename_i hS
    refine ⟨hS, ?_⟩
    split at h
    · rename_i hty
      simp only [hty]
      simp only [Option.map_eq_some_iff, Prod.mk.injEq] at h
      obtain ⟨⟨a, p⟩, h1, rfl, hp⟩ := h
      simp only at hp
      subst hp
      exact ⟨rfl, a, (orLoop_zero _ _ _ _ h1).2.2 rfl⟩
    · rename_i hty
      simp only [hty]
      simp only [Option.map_eq_some_iff, Prod.mk.injEq] at h
      obtain ⟨⟨a, p⟩, h1, rfl, hp⟩ := h
      simp only at hp
      subst hp
      exact ⟨rfl, a, (orLoop_zero _ _ _ _ h1).2.2 rfl⟩
    · rename_i hty
      simp only [hty]
      exact (orLoop_zero _ _ _ _ h).2.2 rfl
    · rename_i hty
      simp only [hty]
      exact (andLoop_zero _ _ _ _ h).2.2

/-- An entry that is on the stack cannot be visited without counting a problem. -/
theorem work_on_stack {A : AGrammar} {f : Nat} {S : List AId} {e : AId} (he : e ∈ S) (b : Bool) :
    work A f S e false ≠ some (b, 0) := by
  cases f with
  | zero => simp [work]
  | succ f => simp [work, he]

/-- If the visit of `xs ++ z :: ys` found no problem although `z` cannot be visited without one, it
    stopped inside `xs`: some sub-rule of `xs` reported "consumes". -/
theorem OrVisit.blocked {w : WFun} {z : AId} (hz : ∀ b, w z false ≠ some (b, 0)) :
    ∀ (xs ys : List AId) (a : Bool), OrVisit w (xs ++ z :: ys) a → a = true ∧ OrVisit w xs true := by
  intro xs
  induction xs with
  | nil =>
    intro ys a h
    cases h with
    | stop hw => exact absurd hw (hz _)
    | skip hw _ => exact absurd hw (hz _)
  | cons x xs ih =>
    intro ys a h
    cases h with
    | stop hw => exact ⟨rfl, OrVisit.stop hw⟩
    | skip hw hr =>
      have ⟨ha, hv⟩ := ih ys a hr
      exact ⟨ha, OrVisit.skip hw hv⟩

/-! ### fuel -/

theorem orLoop_mono {w w' : WFun} (h : ∀ r acc x, w r acc = some x → w' r acc = some x) (accum : Bool) :
    ∀ (rs : List AId) (a : Bool) (p : Nat) (x : Bool × Nat), orLoop w accum rs a p = some x → orLoop w' accum rs a p = some x := by
  intro rs
  induction rs with
  | nil => intro a p x hx; simpa [orLoop] using hx
  | cons r rs ih =>
    intro a p x hx
    simp only [orLoop] at hx ⊢
    cases a with
    | true =>
      simp only [if_true] at hx ⊢
      exact ih _ _ _ hx
    | false =>
      simp only [Bool.false_eq_true, if_false] at hx ⊢
      split at hx
      · exact absurd hx (by simp)
      · rename_i b q hw
        simp only [h _ _ _ hw]
        exact ih _ _ _ hx

theorem andLoop_mono {w w' : WFun} (h : ∀ r acc x, w r acc = some x → w' r acc = some x) (accum : Bool) :
    ∀ (rs : List AId) (a : Bool) (p : Nat) (x : Bool × Nat), andLoop w accum rs a p = some x → andLoop w' accum rs a p = some x := by
  intro rs
  induction rs with
  | nil => intro a p x hx; simpa [andLoop] using hx
  | cons r rs ih =>
    intro a p x hx
    simp only [andLoop] at hx ⊢
    split at hx
    · exact absurd hx (by simp)
    · rename_i b q hw
      simp only [h _ _ _ hw]
      exact ih _ _ _ hx

/-- More fuel never changes a result. -/
theorem work_mono (A : AGrammar) : ∀ (f : Nat) (S : List AId) (e : AId) (acc : Bool) (x : Bool × Nat),
    work A f S e acc = some x → work A (f + 1) S e acc = some x := by
  intro f
  induction f with
  | zero => intro S e acc x h; simp [work] at h
  | succ f ih =>
    intro S e acc x h
    simp only [work] at h ⊢
    split
    · rename_i hS
      simpa [hS] using h
    · rename_i hS
      simp only [hS, if_false] at h
      have hw : ∀ r acc x, work A f (e :: S) r acc = some x → work A (f + 1) (e :: S) r acc = some x :=
        fun r acc x => ih (e :: S) r acc x
      split at h
      · rename_i hty
        simp only [Option.map_eq_some_iff] at h ⊢
        obtain ⟨y, hy, rfl⟩ := h
        exact ⟨y, orLoop_mono hw _ _ _ _ _ hy, rfl⟩
      · rename_i hty
        simp only [Option.map_eq_some_iff] at h ⊢
        obtain ⟨y, hy, rfl⟩ := h
        exact ⟨y, orLoop_mono hw _ _ _ _ _ hy, rfl⟩
      · exact orLoop_mono hw _ _ _ _ _ h
      · exact andLoop_mono hw _ _ _ _ _ h

theorem work_mono_le (A : AGrammar) {f f' : Nat} (hf : f ≤ f') {S : List AId} {e : AId} {acc : Bool} {x : Bool × Nat}
    (h : work A f S e acc = some x) : work A f' S e acc = some x := by
  induction hf with
  | refl => exact h
  | step _ ih => exact work_mono A _ _ _ _ _ ih

/-! ### totality: the DFS needs at most one unit of fuel per entry that is not on the stack -/

/-- Every sub-rule name is a key of the map (`find()` asserts this). -/
def Closed (A : AGrammar) : Prop := ∀ e ∈ A.ids, ∀ s ∈ (A.ent e).subs, s ∈ A.ids

/-- Number of keys not on the stack. -/
def free (ids S : List AId) : Nat := (ids.filter fun x => !S.contains x).length

theorem free_cons_le (ids S : List AId) (e : AId) : free ids (e :: S) ≤ free ids S := by
  unfold free
  induction ids with
  | nil => simp
  | cons x xs ih =>
    simp only [List.filter_cons]
    by_cases hx : S.contains x = true
    · have : (e :: S).contains x = true := by
        simp only [List.contains_cons, hx, Bool.or_true]
      simp only [hx, this, Bool.not_true, Bool.false_eq_true, if_false]
      exact ih
    · simp only [Bool.not_eq_true] at hx
      simp only [hx, Bool.not_false, if_true, List.length_cons]
      split
      · simp only [List.length_cons]; omega
      · omega

theorem free_cons_lt (ids S : List AId) (e : AId) (he : e ∈ ids) (hS : e ∉ S) : free ids (e :: S) < free ids S := by
  unfold free
  induction ids with
  | nil => simp at he
  | cons x xs ih =>
    simp only [List.filter_cons]
    rcases List.mem_cons.mp he with rfl | he'
    · have h1 : S.contains e = false := by simpa using hS
      have h2 : (e :: S).contains e = true := by simp
      simp only [h1, h2, Bool.not_false, Bool.not_true, if_true, Bool.false_eq_true, if_false, List.length_cons]
      have := free_cons_le xs S e
      unfold free at this
      omega
    · have ih' := ih he'
      by_cases hx : S.contains x = true
      · have : (e :: S).contains x = true := by
          simp only [List.contains_cons, hx, Bool.or_true]
        simp only [hx, this, Bool.not_true, Bool.false_eq_true, if_false]
        exact ih'
      · simp only [Bool.not_eq_true] at hx
        simp only [hx, Bool.not_false, if_true, List.length_cons]
        split
        · simp only [List.length_cons]; omega
        · omega

theorem orLoop_total {w : WFun} (accum : Bool) :
    ∀ (rs : List AId), (∀ r ∈ rs, ∀ acc, ∃ x, w r acc = some x) → ∀ (a : Bool) (p : Nat), ∃ x, orLoop w accum rs a p = some x := by
  intro rs
  induction rs with
  | nil => intro _ a p; exact ⟨_, rfl⟩
  | cons r rs ih =>
    intro h a p
    have ih' := ih (fun r' hr' => h r' (List.mem_cons_of_mem _ hr'))
    simp only [orLoop]
    split
    · exact ih' _ _
    · obtain ⟨⟨b, q⟩, hx⟩ := h r (List.mem_cons_self ..) (accum || a)
      simp only [hx]
      exact ih' _ _

theorem andLoop_total {w : WFun} (accum : Bool) :
    ∀ (rs : List AId), (∀ r ∈ rs, ∀ acc, ∃ x, w r acc = some x) → ∀ (a : Bool) (p : Nat), ∃ x, andLoop w accum rs a p = some x := by
  intro rs
  induction rs with
  | nil => intro _ a p; exact ⟨_, rfl⟩
  | cons r rs ih =>
    intro h a p
    have ih' := ih (fun r' hr' => h r' (List.mem_cons_of_mem _ hr'))
    simp only [andLoop]
    obtain ⟨⟨b, q⟩, hx⟩ := h r (List.mem_cons_self ..) accum
    simp only [hx]
    exact ih' _ _

/-- `work` terminates: on a closed table it answers with any fuel above the number of keys not on the stack. -/
theorem work_total {A : AGrammar} (hc : Closed A) : ∀ (f : Nat) (S : List AId) (e : AId) (acc : Bool),
    e ∈ A.ids → free A.ids S < f → ∃ x, work A f S e acc = some x := by
  intro f
  induction f with
  | zero => intro S e acc _ h; omega
  | succ f ih =>
    intro S e acc he hf
    simp only [work]
    split
    · exact ⟨_, rfl⟩
    · rename_i hS
      have hlt := free_cons_lt A.ids S e he hS
      have hsub : ∀ r ∈ (A.ent e).subs, ∀ acc, ∃ x, work A f (e :: S) r acc = some x :=
        fun r hr acc => ih (e :: S) r acc (hc e he r hr) (by omega)
      split
      · obtain ⟨x, hx⟩ := orLoop_total acc _ hsub false 0
        exact ⟨(true, x.2), by simp only [hx, Option.map_some]⟩
      · obtain ⟨x, hx⟩ := orLoop_total acc _ hsub false 0
        exact ⟨(false, x.2), by simp only [hx, Option.map_some]⟩
      · exact orLoop_total acc _ hsub false 0
      · exact andLoop_total acc _ hsub true 0

theorem free_nil_le (ids : List AId) : free ids [] ≤ ids.length := by
  unfold free
  exact List.length_filter_le _ _

/-- `problems()` never runs out of the fuel the model gives it. -/
theorem work_root_total {A : AGrammar} (hc : Closed A) {e : AId} (he : e ∈ A.ids) (acc : Bool) :
    ∃ x, work A A.fuel [] e acc = some x :=
  work_total hc _ _ _ _ he (by have := free_nil_le A.ids; unfold AGrammar.fuel; omega)

/-! ### `problems = 0` -/

theorem sum_eq_zero {l : List Nat} (h : l.sum = 0) : ∀ x ∈ l, x = 0 := by
  induction l with
  | nil => intro x hx; simp at hx
  | cons y ys ih =>
    intro x hx
    simp only [List.sum_cons] at h
    rcases List.mem_cons.mp hx with rfl | hx
    · omega
    · exact ih (by omega) x hx

/-- Zero problems: the DFS from every key ends without having counted one. -/
theorem problems_zero {A : AGrammar} (h : problems A = 0) {e : AId} (he : e ∈ A.ids) :
    ∃ b, work A A.fuel [] e false = some (b, 0) := by
  have h0 : rootProblems A e = 0 := sum_eq_zero h _ (List.mem_map.mpr ⟨e, he, rfl⟩)
  unfold rootProblems at h0
  split at h0
  · rename_i r hr
    exact ⟨r.1, by rw [hr, ← h0]⟩
  · omega

theorem node_mem_abstract {g : Grammar} {i : Nat} (hi : i < g.size) : AId.node i ∈ (abstract g).ids := by
  simp only [abstract, List.mem_flatMap, List.mem_range]
  exact ⟨i, hi, by simp [idsOf]⟩

end Analyze
end Pegtl
