/-
  Lemmas/RawClosureE.lean — the induction principle for properties of the event trace, in its general
  form: the predicate may depend on the environment passed downwards (action family, state nesting
  depth) and is relative to a fixed apply mode.  The trace of every combinator body is built from the
  traces of its sub-rule calls by concatenation, plus `raise` events, plus the bracket of a state
  scope.  Any predicate closed under that holds for every body.
  (RawClosure.lean and RawClosureA.lean are the instances without environment.)
-/
import PegtlVerif.Model.Run
import PegtlVerif.Lemmas.Rewind

namespace Pegtl

structure RawClosedE (Q : Env → List Ev → Prop) : Prop where
  nil : ∀ env, Q env []
  app : ∀ {env a b}, Q env a → Q env b → Q env (a ++ b)
  raise : ∀ env i c, Q env [Ev.raise i c]
  /-- switching the action family is invisible to `Q`, or `Q` accounts for it -/
  fam : ∀ {env f l}, Q { env with fam := f } l → Q env l
  /-- … and so is switching the control family -/
  ctlf : ∀ {env k l}, Q { env with ctl := k } l → Q env l
  /-- a state scope: constructor, the inner trace one level deeper, `success` or not, destructor -/
  scope : ∀ {env l} (o : List Ev), (o = [] ∨ ∃ c, o = [Ev.ssucc (env.sd + 1) c env.sd]) →
    Q { env with sd := env.sd + 1 } l → Q env (Ev.sctor (env.sd + 1) :: l ++ o ++ [Ev.sdtor (env.sd + 1)])

/-- The sub-rule calls made with apply mode `a` have traces satisfying `Q` for their environment. -/
def QRecE (Q : Env → List Ev → Prop) (rec : Rec) (a : AMode) : Prop :=
  ∀ j m env st r, rec j a m env st = some r → Q env r.raw

/-- … restricted to the callees in `S`. -/
def QRecS (Q : Env → List Ev → Prop) (rec : Rec) (a : AMode) (S : List Nat) : Prop :=
  ∀ j ∈ S, ∀ m env st r, rec j a m env st = some r → Q env r.raw

@[simp] theorem prepend_raw (raw surv : List Ev) (r : Ret) : (r.prepend raw surv).raw = raw ++ r.raw := rfl
@[simp] theorem dropOnFail_raw (r : Ret) : r.dropOnFail.raw = r.raw := by
  unfold Ret.dropOnFail; split <;> rfl
@[simp] theorem guardRestore_raw (m : RMode) (c : Cursor) (r : Ret) : (guardRestore m c r).raw = r.raw := by
  unfold guardRestore; split <;> rfl
@[simp] theorem alwaysRestore_raw (c : Cursor) (r : Ret) : (alwaysRestore c r).raw = r.raw := rfl

/-- The events of a conjunction of rule-level action calls satisfy any predicate closed under concatenation that holds
    for each single call. -/
theorem runActs_raw {Q : List Ev → Prop} (hnil : Q []) (happ : ∀ {a b}, Q a → Q b → Q (a ++ b)) (cx : Ctx) (sd : Nat)
    (b e : Cursor) (hev : ∀ k, Q [Ev.ruleApply k sd (cx.rep b) (cx.rep e)]) :
    ∀ acts : List RuleAct, Q (runActs cx sd b e acts).2
  | [] => hnil
  | x :: xs => by
    simp only [runActs]
    split
    · exact hev _
    · split
      · exact hev _
      · have := happ (hev x.id) (runActs_raw hnil happ cx sd b e hev xs)
        simpa using this

section
variable {Q : Env → List Ev → Prop} (hQ : RawClosedE Q) {rec : Rec}
include hQ

theorem seqAll_rawE (a : AMode) (S : List Nat) (hrec : QRecS Q rec a S) (m : RMode) (env : Env) :
    ∀ (cs : List Nat), (∀ c ∈ cs, c ∈ S) → ∀ (st : St) (r : Ret), seqAll rec a m env cs st = some r → Q env r.raw := by
  intro cs
  induction cs with
  | nil => intro _ st r h; simp only [seqAll, Option.some.injEq] at h; subst h; exact hQ.nil _
  | cons c cs ih =>
    intro hcs st r h
    simp only [seqAll] at h
    split at h
    · exact absurd h (by simp)
    · rename_i r1 h1
      have q1 := hrec c (hcs c (List.mem_cons_self ..)) _ _ _ _ h1
      split at h
      · split at h
        · exact absurd h (by simp)
        · rename_i r2 h2
          simp only [Option.some.injEq] at h; subst h
          exact hQ.app q1 (ih (fun x hx => hcs x (List.mem_cons_of_mem _ hx)) _ _ h2)
      · simp only [Option.some.injEq] at h; subst h; exact q1

theorem sorAny_rawE (a : AMode) (S : List Nat) (hrec : QRecS Q rec a S) (m : RMode) (env : Env) :
    ∀ (cs : List Nat), (∀ c ∈ cs, c ∈ S) → ∀ (st : St) (r : Ret), sorAny rec a m env cs st = some r → Q env r.raw := by
  intro cs
  induction cs with
  | nil => intro _ st r h; simp only [sorAny, Option.some.injEq] at h; subst h; exact hQ.nil _
  | cons c cs ih =>
    intro hcs st r h
    cases cs with
    | nil => simp only [sorAny] at h; exact hrec c (hcs c (List.mem_cons_self ..)) _ _ _ _ h
    | cons c' cs' =>
      simp only [sorAny] at h
      split at h
      · exact absurd h (by simp)
      · rename_i r1 h1
        have q1 := hrec c (hcs c (List.mem_cons_self ..)) _ _ _ _ h1
        split at h
        · split at h
          · exact absurd h (by simp)
          · rename_i r2 h2
            simp only [Option.some.injEq] at h; subst h
            exact hQ.app q1 (ih (fun x hx => hcs x (List.mem_cons_of_mem _ hx)) _ _ h2)
        · simp only [Option.some.injEq] at h; subst h; exact q1

theorem loopStar_rawE (a : AMode) (S : List Nat) (hrec : QRecS Q rec a S) (env : Env) (cs : List Nat) (hcs : ∀ c ∈ cs, c ∈ S) :
    ∀ (k : Nat) (st : St) (r : Ret), loopStar rec a env cs k st = some r → Q env r.raw := by
  intro k
  induction k with
  | zero => intro st r h; simp [loopStar] at h
  | succ k ih =>
    intro st r h
    simp only [loopStar] at h
    split at h
    · exact absurd h (by simp)
    · rename_i r1 h1
      have q1 := seqAll_rawE hQ a S hrec .required env cs hcs st r1 h1
      split at h
      · split at h
        · exact absurd h (by simp)
        · rename_i r2 h2
          simp only [Option.some.injEq] at h; subst h
          exact hQ.app q1 (ih _ _ h2)
      · simp only [Option.some.injEq] at h; subst h; exact q1
      · simp only [Option.some.injEq] at h; subst h; exact q1

theorem repN_rawE (a : AMode) (S : List Nat) (hrec : QRecS Q rec a S) (m : RMode) (env : Env) (c : Nat) (hc : c ∈ S) :
    ∀ (k : Nat) (st : St) (r : Ret), repN rec a m env c k st = some r → Q env r.raw := by
  intro k
  induction k with
  | zero => intro st r h; simp only [repN, Option.some.injEq] at h; subst h; exact hQ.nil _
  | succ k ih =>
    intro st r h
    simp only [repN] at h
    split at h
    · exact absurd h (by simp)
    · rename_i r1 h1
      have q1 := hrec c hc _ _ _ _ h1
      split at h
      · split at h
        · exact absurd h (by simp)
        · rename_i r2 h2
          simp only [Option.some.injEq] at h; subst h
          exact hQ.app q1 (ih _ _ h2)
      · simp only [Option.some.injEq] at h; subst h; exact q1

theorem repUpTo_rawE (a : AMode) (S : List Nat) (hrec : QRecS Q rec a S) (env : Env) (c : Nat) (hc : c ∈ S) :
    ∀ (k : Nat) (st : St) (r : Ret) (full : Bool), repUpTo rec a env c k st = some (r, full) → Q env r.raw := by
  intro k
  induction k with
  | zero =>
    intro st r full h
    simp only [repUpTo, Option.some.injEq, Prod.mk.injEq] at h
    obtain ⟨h, _⟩ := h; subst h; exact hQ.nil _
  | succ k ih =>
    intro st r full h
    simp only [repUpTo] at h
    split at h
    · exact absurd h (by simp)
    · rename_i r1 h1
      have q1 := hrec c hc _ _ _ _ h1
      split at h
      · split at h
        · exact absurd h (by simp)
        · rename_i r2 full2 h2
          simp only [Option.some.injEq, Prod.mk.injEq] at h
          obtain ⟨h, _⟩ := h; subst h
          exact hQ.app q1 (ih _ _ _ h2)
      · simp only [Option.some.injEq, Prod.mk.injEq] at h
        obtain ⟨h, _⟩ := h; subst h; exact q1
      · simp only [Option.some.injEq, Prod.mk.injEq] at h
        obtain ⟨h, _⟩ := h; subst h; exact q1

theorem loopUntil1_rawE (cx : Ctx) (a : AMode) (S : List Nat) (hrec : QRecS Q rec a S) (env : Env) (cond : Nat) (hc : cond ∈ S) :
    ∀ (k : Nat) (st : St) (r : Ret), loopUntil1 cx rec a env cond k st = some r → Q env r.raw := by
  intro k
  induction k with
  | zero => intro st r h; simp [loopUntil1] at h
  | succ k ih =>
    intro st r h
    simp only [loopUntil1] at h
    split at h
    · exact absurd h (by simp)
    · rename_i r1 h1
      have q1 := hrec cond hc _ _ _ _ h1
      split at h
      · simp only [Option.some.injEq] at h; subst h; exact q1
      · simp only [Option.some.injEq] at h; subst h; exact q1
      · split at h
        · simp only [Option.some.injEq] at h; subst h; exact q1
        · split at h
          · exact absurd h (by simp)
          · rename_i r2 h2
            simp only [Option.some.injEq] at h; subst h
            exact hQ.app q1 (ih _ _ h2)

theorem loopUntil2_rawE (a : AMode) (S : List Nat) (hrec : QRecS Q rec a S) (env : Env) (cond b : Nat) (hc : cond ∈ S) (hb : b ∈ S) :
    ∀ (k : Nat) (st : St) (r : Ret), loopUntil2 rec a env cond b k st = some r → Q env r.raw := by
  intro k
  induction k with
  | zero => intro st r h; simp [loopUntil2] at h
  | succ k ih =>
    intro st r h
    simp only [loopUntil2] at h
    split at h
    · exact absurd h (by simp)
    · rename_i r1 h1
      have q1 := hrec cond hc _ _ _ _ h1
      split at h
      · simp only [Option.some.injEq] at h; subst h; exact q1
      · simp only [Option.some.injEq] at h; subst h; exact q1
      · split at h
        · exact absurd h (by simp)
        · rename_i r2 h2
          have q2 := hrec b hb _ _ _ _ h2
          split at h
          · split at h
            · exact absurd h (by simp)
            · rename_i r3 h3
              simp only [Option.some.injEq] at h; subst h
              simp only [prepend_raw, List.append_assoc]
              exact hQ.app q1 (hQ.app q2 (ih _ _ h3))
          · simp only [Option.some.injEq] at h; subst h
            exact hQ.app q1 q2

theorem loopStarStrict_rawE (a : AMode) (S : List Nat) (hrec : QRecS Q rec a S) (env : Env) (c rest : Nat) (hc : c ∈ S) (hr : rest ∈ S) :
    ∀ (k : Nat) (st : St) (r : Ret), loopStarStrict rec a env c rest k st = some r → Q env r.raw := by
  intro k
  induction k with
  | zero => intro st r h; simp [loopStarStrict] at h
  | succ k ih =>
    intro st r h
    simp only [loopStarStrict] at h
    split at h
    · exact absurd h (by simp)
    · rename_i r1 h1
      have q1 := hrec c hc _ _ _ _ h1
      split at h
      · simp only [Option.some.injEq] at h; subst h; exact q1
      · simp only [Option.some.injEq] at h; subst h; exact q1
      · split at h
        · exact absurd h (by simp)
        · rename_i r2 h2
          have q2 := hrec rest hr _ _ _ _ h2
          split at h
          · split at h
            · exact absurd h (by simp)
            · rename_i r3 h3
              simp only [Option.some.injEq] at h; subst h
              simp only [prepend_raw, List.append_assoc]
              exact hQ.app q1 (hQ.app q2 (ih _ _ h3))
          · simp only [Option.some.injEq] at h; subst h
            exact hQ.app q1 q2

theorem rematchAll_rawE (a : AMode) (S : List Nat) (hrec : QRecS Q rec a S) (env : Env) (saved : Cursor) :
    ∀ (rs : List Nat), (∀ c ∈ rs, c ∈ S) → ∀ (st : St) (r : Ret), rematchAll rec a env saved rs st = some r → Q env r.raw := by
  intro rs
  induction rs with
  | nil => intro _ st r h; simp only [rematchAll, Option.some.injEq] at h; subst h; exact hQ.nil _
  | cons c cs ih =>
    intro hcs st r h
    simp only [rematchAll] at h
    split at h
    · exact absurd h (by simp)
    · rename_i r1 h1
      have q1 := hrec c (hcs c (List.mem_cons_self ..)) _ _ _ _ h1
      split at h
      · split at h
        · exact absurd h (by simp)
        · rename_i r2 h2
          simp only [Option.some.injEq] at h; subst h
          exact hQ.app q1 (ih (fun x hx => hcs x (List.mem_cons_of_mem _ hx)) _ r2 h2)
      · simp only [Option.some.injEq] at h; subst h; exact q1

/-- The trace of every rule body satisfies any trace predicate closed under concatenation and
    `raise` events, given that the traces of the sub-rule calls it can make do: calls with its own
    apply mode, calls with actions disabled (`at`, `not_at`, `disable`), and — only for `enable` —
    calls with actions enabled. -/
theorem body_rawS (cx : Ctx) (k : Nat) (kind : Kind) (a : AMode) (hrec : QRecS Q rec a kind.calls) (hoff : QRecS Q rec .nothing kind.calls)
    (hon : (∃ c, kind = .enable c) → QRecS Q rec .action kind.calls) (m : RMode) (env : Env)
    (hract : a = .action → ∀ (acts : List RuleAct) (b e : Cursor), Q env (runActs cx env.sd b e acts).2) (st : St) (r : Ret)
    (h : body cx rec k kind a m env st = some r) : Q env r.raw := by
  cases kind with
  | atom atm => simp only [body, Option.some.injEq] at h; subst h; exact hQ.nil _
  | seq cs =>
    simp only [body] at h
    split at h
    · exact hrec _ (by simp [Kind.calls]) _ _ _ _ h
    · simp only [Option.map_eq_some_iff] at h
      obtain ⟨r0, h0, rfl⟩ := h
      simpa using seqAll_rawE hQ a _ hrec _ _ _ (by intro x hx; simp [Kind.calls, hx]) _ _ h0
  | sor cs => simp only [body] at h; exact sorAny_rawE hQ a _ hrec _ _ _ (by intro x hx; simp [Kind.calls, hx]) _ _ h
  | starPartial cs => simp only [body] at h; exact loopStar_rawE hQ a _ hrec _ _ (by intro x hx; simp [Kind.calls, hx]) _ _ _ h
  | partialR cs =>
    simp only [body, Option.map_eq_some_iff] at h
    obtain ⟨r0, h0, rfl⟩ := h
    have := seqAll_rawE hQ a _ hrec _ _ _ (by intro x hx; simp [Kind.calls, hx]) _ _ h0
    split <;> exact this
  | plus c =>
    simp only [body] at h
    split at h
    · exact absurd h (by simp)
    · rename_i r1 h1
      have q1 := hrec _ (by simp [Kind.calls]) _ _ _ _ h1
      split at h
      · simp only [Option.map_eq_some_iff] at h
        obtain ⟨r2, h2, rfl⟩ := h
        exact hQ.app q1 (loopStar_rawE hQ a _ hrec _ _ (by intro x hx; simp [Kind.calls, hx]) _ _ _ h2)
      · simp only [Option.some.injEq] at h; subst h; exact q1
  | atR c =>
    simp only [body, Option.map_eq_some_iff] at h
    obtain ⟨r0, h0, rfl⟩ := h
    exact hoff _ (by simp [Kind.calls]) _ _ _ r0 h0
  | notAt c =>
    simp only [body, Option.map_eq_some_iff] at h
    obtain ⟨r0, h0, rfl⟩ := h
    have := hoff _ (by simp [Kind.calls]) _ _ _ _ h0
    split <;> exact this
  | until1 cond =>
    simp only [body, Option.map_eq_some_iff] at h
    obtain ⟨r0, h0, rfl⟩ := h
    simpa using loopUntil1_rawE hQ cx a _ hrec _ _ (by simp [Kind.calls]) _ _ _ h0
  | until2 cond b =>
    simp only [body, Option.map_eq_some_iff] at h
    obtain ⟨r0, h0, rfl⟩ := h
    simpa using loopUntil2_rawE hQ a _ hrec _ _ _ (by simp [Kind.calls]) (by simp [Kind.calls]) _ _ _ h0
  | rep n c =>
    simp only [body, Option.map_eq_some_iff] at h
    obtain ⟨r0, h0, rfl⟩ := h
    simpa using repN_rawE hQ a _ hrec _ _ _ (by simp [Kind.calls]) _ _ _ h0
  | repMinMax lo hi c na =>
    simp only [body] at h
    split at h
    · exact absurd h (by simp)
    · rename_i r1 h1
      have q1 := repN_rawE hQ a _ hrec _ _ _ (by simp [Kind.calls]) _ _ _ h1
      split at h
      · split at h
        · exact absurd h (by simp)
        · rename_i r2 full h2
          have q2 := repUpTo_rawE hQ a _ hrec _ _ (by simp [Kind.calls]) _ _ _ _ h2
          split at h
          · split at h
            · exact absurd h (by simp)
            · rename_i r3 h3
              simp only [Option.some.injEq] at h; subst h
              have q3 := hrec _ (by simp [Kind.calls]) _ _ _ _ h3
              simp only [dropOnFail_raw, guardRestore_raw, prepend_raw]
              exact hQ.app (hQ.app q1 q2) q3
          · simp only [Option.some.injEq] at h; subst h
            simp only [dropOnFail_raw, guardRestore_raw, prepend_raw]
            exact hQ.app q1 q2
      · simp only [Option.some.injEq] at h; subst h
        simpa using q1
  | repOpt n c =>
    simp only [body, Option.map_eq_some_iff] at h
    obtain ⟨⟨r0, full⟩, h0, rfl⟩ := h
    exact repUpTo_rawE hQ a _ hrec _ _ (by simp [Kind.calls]) _ _ _ _ h0
  | ifThenElse c t e =>
    simp only [body] at h
    split at h
    · exact absurd h (by simp)
    · rename_i r1 h1
      have q1 := hrec _ (by simp [Kind.calls]) _ _ _ _ h1
      split at h
      · simp only [Option.map_eq_some_iff] at h
        obtain ⟨r2, h2, rfl⟩ := h
        simpa using hQ.app q1 (hrec _ (by simp [Kind.calls]) _ _ _ _ h2)
      · simp only [Option.map_eq_some_iff] at h
        obtain ⟨r2, h2, rfl⟩ := h
        simpa using hQ.app q1 (hrec _ (by simp [Kind.calls]) _ _ _ _ h2)
      · simp only [Option.some.injEq] at h; subst h
        simpa using q1
  | strict c rest =>
    simp only [body] at h
    split at h
    · exact absurd h (by simp)
    · rename_i r1 h1
      have q1 := hrec _ (by simp [Kind.calls]) _ _ _ _ h1
      split at h
      · simp only [Option.map_eq_some_iff] at h
        obtain ⟨r2, h2, rfl⟩ := h
        simpa using hQ.app q1 (hrec _ (by simp [Kind.calls]) _ _ _ _ h2)
      · simp only [Option.some.injEq] at h; subst h; exact q1
      · simp only [Option.some.injEq] at h; subst h
        simpa using q1
  | starStrict c rest =>
    simp only [body, Option.map_eq_some_iff] at h
    obtain ⟨r0, h0, rfl⟩ := h
    simpa using loopStarStrict_rawE hQ a _ hrec _ _ _ (by simp [Kind.calls]) (by simp [Kind.calls]) _ _ _ h0
  | rematch head rs =>
    simp only [body] at h
    split at h
    · exact hrec _ (by simp [Kind.calls]) _ _ _ _ h
    · split at h
      · exact absurd h (by simp)
      · rename_i r1 h1
        have q1 := hrec _ (by simp [Kind.calls]) _ _ _ _ h1
        split at h
        · split at h
          · exact absurd h (by simp)
          · rename_i r2 h2
            simp only [Option.some.injEq] at h; subst h
            have q2 := rematchAll_rawE hQ a _ hrec _ _ _ (by intro x hx; simp [Kind.calls, hx]) _ _ h2
            simp only [dropOnFail_raw, guardRestore_raw, prepend_raw]
            exact hQ.app q1 q2
        · simp only [Option.some.injEq] at h; subst h
          simpa using q1
  | must c =>
    simp only [body] at h
    split at h
    · exact absurd h (by simp)
    · rename_i r1 h1
      have q1 := hrec _ (by simp [Kind.calls]) _ _ _ _ h1
      split at h
      · simp only [Option.some.injEq] at h; subst h
        exact hQ.app q1 (hQ.raise _ _ _)
      · simp only [Option.some.injEq] at h; subst h; exact q1
  | ifMust dflt cond mn =>
    simp only [body] at h
    split at h
    · exact absurd h (by simp)
    · rename_i r1 h1
      have q1 := hrec _ (by simp [Kind.calls]) _ _ _ _ h1
      split at h
      · simp only [Option.map_eq_some_iff] at h
        obtain ⟨r2, h2, rfl⟩ := h
        have q2 := hrec _ (by simp [Kind.calls]) _ _ _ _ h2
        split
        · simpa using hQ.app q1 q2
        · exact hQ.app q1 q2
      · simp only [Option.some.injEq] at h; subst h; exact q1
      · simp only [Option.some.injEq] at h; subst h; exact q1
  | raise t =>
    simp only [body, Option.some.injEq] at h; subst h
    exact hQ.raise _ _ _
  | tryCatchReturnFalse ex c =>
    simp only [body, Option.map_eq_some_iff] at h
    obtain ⟨r0, h0, rfl⟩ := h
    have q := hrec _ (by simp [Kind.calls]) _ _ _ _ h0
    simp only [dropOnFail_raw, guardRestore_raw]
    split
    · split <;> exact q
    · exact q
  | tryCatchRaiseNested ex c =>
    simp only [body, Option.map_eq_some_iff] at h
    obtain ⟨r0, h0, rfl⟩ := h
    have q := hrec _ (by simp [Kind.calls]) _ _ _ _ h0
    simp only [dropOnFail_raw, guardRestore_raw]
    split
    · split <;> exact q
    · exact q
  | enable c => simp only [body] at h; exact hon ⟨c, rfl⟩ _ (by simp [Kind.calls]) _ _ _ _ h
  | disable c => simp only [body] at h; exact hoff _ (by simp [Kind.calls]) _ _ _ _ h
  | action fam c => simp only [body] at h; exact hQ.fam (hrec _ (by simp [Kind.calls]) _ _ _ _ h)
  | state d c =>
    simp only [body, Option.map_eq_some_iff] at h
    obtain ⟨r0, h0, rfl⟩ := h
    have q := hrec _ (by simp [Kind.calls]) _ _ _ _ h0
    unfold stateScope
    split
    · exact hQ.scope _ (Or.inr ⟨_, rfl⟩) q
    · exact hQ.scope _ (Or.inl rfl) q
  | ifApply c acts =>
    simp only [body] at h
    split at h
    · rename_i hc
      simp only [Option.map_eq_some_iff] at h
      obtain ⟨r0, h0, rfl⟩ := h
      have h0' : rec c a .optional env st = some r0 := by rw [hc.1]; exact h0
      have q := hrec _ (by simp [Kind.calls]) _ _ _ _ h0'
      split
      · simp only [dropOnFail_raw, guardRestore_raw]
        exact hQ.app q (hract hc.1 _ _ _)
      · simpa using q
    · exact hrec _ (by simp [Kind.calls]) _ _ _ _ h
  | control kc c => simp only [body] at h; exact hQ.ctlf (hrec _ (by simp [Kind.calls]) _ _ _ _ h)
  | applyR acts =>
    simp only [body] at h
    split at h
    · rename_i hc
      simp only [Option.some.injEq] at h; subst h
      simpa using hract hc.1 acts st.cur st.cur
    · simp only [Option.some.injEq] at h; subst h
      exact hQ.nil _


/-- The unrestricted form: every callee's trace satisfies `Q`. -/
theorem body_rawE (cx : Ctx) (k : Nat) (kind : Kind) (a : AMode) (hrec : QRecE Q rec a) (hoff : QRecE Q rec .nothing)
    (hon : (∃ c, kind = .enable c) → QRecE Q rec .action) (m : RMode) (env : Env)
    (hract : a = .action → ∀ (acts : List RuleAct) (b e : Cursor), Q env (runActs cx env.sd b e acts).2) (st : St) (r : Ret)
    (h : body cx rec k kind a m env st = some r) : Q env r.raw :=
  body_rawS hQ cx k kind a (fun j _ => hrec j) (fun j _ => hoff j) (fun he j _ => hon he j) m env hract st r h

end

end Pegtl
