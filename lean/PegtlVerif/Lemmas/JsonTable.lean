/-
  Lemmas/JsonTable.lean — the documented expansion (`Spec.expandKind`) of every node of
  `Expected.json`, spelled out (each line is checked by `rfl`), and the table-level facts used by
  Props/C14.lean: the table is exception-free and plain, so the offset formulation `Sem` and the
  list formulation `SemL` coincide on it.
-/
import PegtlVerif.Lemmas.JsonSemL
import PegtlVerif.Expected.Json

namespace Pegtl.Json
open Pegtl Pegtl.Spec

/-- The grammar function of the translated json.hpp. -/
abbrev G : Nat → Option PExp := Gof Expected.json

theorem g0 : G 0 = some (.atom (.one true [32, 9, 10, 13])) := rfl   -- ws
theorem g1 : G 1 = some (.seq (.ref 37) (.seq (.ref 38) .eps)) := rfl   -- begin_array
theorem g2 : G 2 = some (.seq (.ref 39) (.seq (.ref 38) .eps)) := rfl   -- begin_object
theorem g3 : G 3 = some (.atom (.one true [93])) := rfl   -- end_array
theorem g4 : G 4 = some (.atom (.one true [125])) := rfl   -- end_object
theorem g5 : G 5 = some (.seq (.ref 40) (.seq (.ref 41) (.seq (.ref 40) .eps))) := rfl   -- name_separator
theorem g6 : G 6 = some (.seq (.ref 42) (.seq (.ref 38) .eps)) := rfl   -- value_separator
theorem g7 : G 7 = some (.atom (.string [102, 97, 108, 115, 101])) := rfl   -- false_
theorem g8 : G 8 = some (.atom (.string [110, 117, 108, 108])) := rfl   -- null
theorem g9 : G 9 = some (.atom (.string [116, 114, 117, 101])) := rfl   -- true_
theorem g10 : G 10 = some (.seq (.ref 43) (.star (.ref 43))) := rfl   -- digits
theorem g11 : G 11 = some (.seq (.ref 44) (.seq (.ref 45) (.seq (.ref 10) .eps))) := rfl   -- exp
theorem g12 : G 12 = some (.seq (.ref 47) (.seq (.ref 10) .eps)) := rfl   -- frac
theorem g13 : G 13 = some (.alt (.ref 48) (.alt (.ref 49) .failE)) := rfl   -- int_
theorem g14 : G 14 = some (.seq (.ref 50) (.seq (.ref 13) (.seq (.ref 52) (.seq (.ref 53) .eps)))) := rfl   -- number
theorem g15 : G 15 = some (.atom (.ranges [(48, 57), (97, 102), (65, 70)] none)) := rfl   -- xdigit
theorem g16 : G 16 = some (.seq (.ref 54) (.seq (.ref 57) .eps)) := rfl   -- unicode
theorem g17 : G 17 = some (.atom (.one true [34, 92, 47, 98, 102, 110, 114, 116])) := rfl   -- escaped_char
theorem g18 : G 18 = some (.alt (.ref 17) (.alt (.ref 16) .failE)) := rfl   -- escaped
theorem g19 : G 19 = some (.atom (.utf8Range true 32 1114111)) := rfl   -- unescaped
theorem g20 : G 20 = some (.alt (.seq (.ref 59) (.ref 18)) (.seq (.not_ (.ref 59)) (.ref 19))) := rfl   -- char_
theorem g21 : G 21 = some (.seq (.star (.seq (.not_ (.ref 60)) (.ref 20))) (.ref 60)) := rfl   -- string_content
theorem g22 : G 22 = some (.seq (.ref 61) (.seq (.ref 21) (.seq (.ref 62) .eps))) := rfl   -- string
theorem g23 : G 23 = some (.seq (.star (.seq (.not_ (.ref 60)) (.ref 20))) (.ref 60)) := rfl   -- key_content
theorem g24 : G 24 = some (.seq (.ref 61) (.seq (.ref 23) (.seq (.ref 62) .eps))) := rfl   -- key
theorem g25 : G 25 = some (.alt (.ref 22) (.alt (.ref 14) (.alt (.ref 34) (.alt (.ref 29) (.alt (.ref 7) (.alt (.ref 9) (.alt (.ref 8) .failE))))))) := rfl   -- value
theorem g26 : G 26 = some (.seq (.ref 25) (.seq (.ref 38) .eps)) := rfl   -- array_element
theorem g27 : G 27 = some (.seq (.ref 26) .eps) := rfl   -- next_array_element
theorem g28 : G 28 = some (.alt (.seq (.ref 63) (.alt .eps .eps)) .eps) := rfl   -- array_content
theorem g29 : G 29 = some (.seq (.ref 1) (.seq (.ref 28) (.seq (.ref 3) .eps))) := rfl   -- array
theorem g30 : G 30 = some (.seq (.ref 25) (.seq (.ref 38) .eps)) := rfl   -- member_value
theorem g31 : G 31 = some (.seq (.ref 24) (.seq (.ref 5) (.seq (.ref 30) .eps))) := rfl   -- member
theorem g32 : G 32 = some (.seq (.ref 31) .eps) := rfl   -- next_member
theorem g33 : G 33 = some (.alt (.seq (.ref 66) (.alt .eps .eps)) .eps) := rfl   -- object_content
theorem g34 : G 34 = some (.seq (.ref 2) (.seq (.ref 33) (.seq (.ref 4) .eps))) := rfl   -- object
theorem g35 : G 35 = some (.seq (.ref 40) (.seq (.ref 25) (.seq (.ref 40) .eps))) := rfl   -- text
theorem g36 : G 36 = some (.seq (.ref 35) (.seq (.ref 69) .eps)) := rfl   -- top
theorem g37 : G 37 = some (.atom (.one true [91])) := rfl   -- one< char(91) >
theorem g38 : G 38 = some (.star (.ref 0)) := rfl   -- star< ws >
theorem g39 : G 39 = some (.atom (.one true [123])) := rfl   -- one< char(123) >
theorem g40 : G 40 = some (.star (.ref 0)) := rfl   -- internal::star< ws >
theorem g41 : G 41 = some (.atom (.one true [58])) := rfl   -- one< char(58) >
theorem g42 : G 42 = some (.atom (.one true [44])) := rfl   -- one< char(44) >
theorem g43 : G 43 = some (.atom (.range true 48 57)) := rfl   -- digit
theorem g44 : G 44 = some (.atom (.one true [101, 69])) := rfl   -- one< char(101), char(69) >
theorem g45 : G 45 = some (.alt (.seq (.ref 46) (.alt .eps .eps)) .eps) := rfl   -- opt< one< char(45), char(43) > >
theorem g46 : G 46 = some (.atom (.one true [45, 43])) := rfl   -- one< char(45), char(43) >
theorem g47 : G 47 = some (.atom (.one true [46])) := rfl   -- one< char(46) >
theorem g48 : G 48 = some (.atom (.one true [48])) := rfl   -- one< char(48) >
theorem g49 : G 49 = some (.seq (.ref 43) (.star (.ref 43))) := rfl   -- plus< digit >
theorem g50 : G 50 = some (.alt (.seq (.ref 51) (.alt .eps .eps)) .eps) := rfl   -- opt< one< char(45) > >
theorem g51 : G 51 = some (.atom (.one true [45])) := rfl   -- one< char(45) >
theorem g52 : G 52 = some (.alt (.seq (.ref 12) (.alt .eps .eps)) .eps) := rfl   -- opt< frac >
theorem g53 : G 53 = some (.alt (.seq (.ref 11) (.alt .eps .eps)) .eps) := rfl   -- opt< exp >
theorem g54 : G 54 = some (.seq (.ref 55) (.seq (.ref 56) .eps)) := rfl   -- seq< one< char(117) >, rep< 4, xdigit > >
theorem g55 : G 55 = some (.atom (.one true [117])) := rfl   -- one< char(117) >
theorem g56 : G 56 = some (.seq (.ref 15) (.seq (.ref 15) (.seq (.ref 15) (.seq (.ref 15) .eps)))) := rfl   -- rep< 4, xdigit >
theorem g57 : G 57 = some (.star (.ref 58)) := rfl   -- internal::star< one< char(92) >, seq< one< char(117) >, rep< 4, xdigit > > >
theorem g58 : G 58 = some (.seq (.ref 59) (.seq (.ref 54) .eps)) := rfl   -- internal::seq< one< char(92) >, seq< one< char(117) >, rep< 4, xdigit > > >
theorem g59 : G 59 = some (.atom (.one true [92])) := rfl   -- one< char(92) >
theorem g60 : G 60 = some (.and_ (.ref 61)) := rfl   -- at< one< char(34) > >
theorem g61 : G 61 = some (.atom (.one true [34])) := rfl   -- one< char(34) >
theorem g62 : G 62 = some (.atom .any) := rfl   -- any
theorem g63 : G 63 = some (.seq (.ref 26) (.seq (.ref 64) .eps)) := rfl   -- internal::seq< array_element, star< value_separator, next_array_element > >
theorem g64 : G 64 = some (.star (.ref 65)) := rfl   -- star< value_separator, next_array_element >
theorem g65 : G 65 = some (.seq (.ref 6) (.seq (.ref 27) .eps)) := rfl   -- internal::seq< value_separator, next_array_element >
theorem g66 : G 66 = some (.seq (.ref 31) (.seq (.ref 67) .eps)) := rfl   -- internal::seq< member, star< value_separator, next_member > >
theorem g67 : G 67 = some (.star (.ref 68)) := rfl   -- star< value_separator, next_member >
theorem g68 : G 68 = some (.seq (.ref 6) (.seq (.ref 32) .eps)) := rfl   -- internal::seq< value_separator, next_member >
theorem g69 : G 69 = some (.atom .eof) := rfl   -- eof

/-- Every expansion of the table lies in the exception-free, list-only fragment. -/
theorem G_plain : ∀ i e, G i = some e → e.plain = true := by
  have h : ∀ i, i < Expected.json.size → ((G i).map PExp.plain) = some true := by decide
  intro i e hi
  by_cases hlt : i < Expected.json.size
  · have := h i hlt
    rw [hi] at this
    simpa using this
  · have : G i = none := by
      simp only [G, Gof, Option.map_eq_none_iff]
      exact Array.getElem?_eq_none (by omega)
    rw [this] at hi; cases hi

end Pegtl.Json
