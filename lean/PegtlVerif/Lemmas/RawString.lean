import PegtlVerif.Model.RawString
import PegtlVerif.Spec.LuaLong
set_option linter.unusedSimpArgs false

namespace Pegtl.RawString
open Pegtl Pegtl.LuaLong

/-- The input window of `st` is the tail of the whole array. -/
def WF (cx : Ctx) (st : St) : Prop := st.endp = cx.inp.size ∧ st.cur.pos ≤ st.endp

theorem peek_eq (cx : Ctx) (st : St) (i : Nat) : peek cx st i = cx.inp.getD (st.cur.pos + i) 0 := rfl

theorem getD_eq_iff (a : Array UInt8) (j : Nat) (x : UInt8) (h : j < a.size) :
    a.getD j 0 = x ↔ a[j]? = some x := by
  simp [Array.getD, h]

theorem lt_of_getElem? {a : Array UInt8} {j : Nat} {x : UInt8} (h : a[j]? = some x) : j < a.size := by
  rcases Nat.lt_or_ge j a.size with hl | hn
  · exact hl
  · simp [Array.getElem?_eq_none hn] at h

theorem rd_in (cx : Ctx) (st : St) (off : Nat) (h : st.cur.pos + off < st.endp) :
    rd cx st off = (cx.inp.getD (st.cur.pos + off) 0, st) := by
  simp [rd, h]

theorem markOob_in (st : St) (n : Nat) (h : st.cur.pos + n ≤ st.endp) : markOob st n = st := by
  simp [markOob, h]

@[simp] theorem markOob_endp (st : St) (n : Nat) : (markOob st n).endp = st.endp := by
  unfold markOob; split <;> rfl
@[simp] theorem markOob_cur (st : St) (n : Nat) : (markOob st n).cur = st.cur := by
  unfold markOob; split <;> rfl

set_option linter.unusedSimpArgs false in
theorem eolMatch_pos (cx : Ctx) (st : St) (h : WF cx st) :
    (eolMatch cx st).2.2.cur.pos = st.cur.pos + eolLen cx.eol cx.inp st.cur.pos
    ∧ (eolMatch cx st).2.2.endp = st.endp := by
  obtain ⟨h1, h2⟩ := h
  unfold eolMatch eolLen
  rcases Nat.lt_or_ge st.cur.pos st.endp with hlt | hge
  · have r0 := rd_in cx st 0 (by omega)
    have g0 : st.cur.pos < cx.inp.size := by omega
    rcases Nat.lt_or_ge (st.cur.pos + 1) st.endp with hlt2 | hge2
    · have r1 := rd_in cx st 1 (by omega)
      have g1 : st.cur.pos + 1 < cx.inp.size := by omega
      cases cx.eol <;> simp (disch := omega) [St.avail, r0, r1, bumpToNextLine, bumpToNextLineC, g0, g1, Array.getD]
      all_goals (constructor <;> (repeat' split) <;> first | rfl | omega | (simp_all; done) | (simp_all <;> omega))
    · have g1 : cx.inp[st.cur.pos + 1]? = none := Array.getElem?_eq_none (by omega)
      cases cx.eol <;> simp (disch := omega) [St.avail, r0, bumpToNextLine, bumpToNextLineC, g0, g1, Array.getD]
      all_goals (constructor <;> (repeat' split) <;> first | rfl | omega | (simp_all; done) | (simp_all <;> omega))
  · have g0 : cx.inp[st.cur.pos]? = none := Array.getElem?_eq_none (by omega)
    cases cx.eol <;> simp (disch := omega) [St.avail, bumpToNextLine, bumpToNextLineC, g0, Array.getD]
    all_goals (constructor <;> (repeat' split) <;> first | rfl | omega | (simp_all; done) | (simp_all <;> omega))

@[simp] theorem bumpInThisLine_pos (st : St) (n : Nat) : (bumpInThisLine st n).cur.pos = st.cur.pos + n := by
  simp [bumpInThisLine, bumpInThisLineC]
@[simp] theorem bumpInThisLine_endp (st : St) (n : Nat) : (bumpInThisLine st n).endp = st.endp := by
  simp [bumpInThisLine]
@[simp] theorem bump1_pos (cx : Ctx) (st : St) : (bump cx st 1).cur.pos = st.cur.pos + 1 := by
  simp only [bump, bumpScan]; split <;> rfl
@[simp] theorem bump1_endp (cx : Ctx) (st : St) : (bump cx st 1).endp = st.endp := by
  simp [bump]

/-- Characterisation of the marker-counting loop of `raw_string_open`: it succeeds exactly when
    the bytes from offset `i` on are markers up to a second `Open` at some offset `j` inside
    the window. -/
theorem openLoop_some (cx : Ctx) (k : Cfg) (st : St) (hom : k.o ≠ k.m) :
    ∀ (r i ms : Nat) (st' : St),
      openLoop cx k st r i = some (ms, st') ↔
        ∃ j, i ≤ j ∧ j < i + r ∧ (∀ l, i ≤ l → l < j → peek cx st l = k.m) ∧ peek cx st j = k.o
          ∧ ms = j + 1 ∧ st' = (eolMatch cx (bumpInThisLine st (j + 1))).2.2 := by
  intro r
  induction r with
  | zero =>
    intro i ms st'
    simp only [openLoop]
    constructor
    · intro h; cases h
    · rintro ⟨j, h1, h2, _⟩; omega
  | succ r ih =>
    intro i ms st'
    simp only [openLoop]
    by_cases ho : peek cx st i = k.o
    · simp only [ho, if_true]
      constructor
      · intro h
        injection h with h
        injection h with h1 h2
        exact ⟨i, Nat.le_refl _, by omega, fun l a b => by omega, ho, h1.symm, h2.symm⟩
      · rintro ⟨j, h1, h2, h3, h4, h5, h6⟩
        have : j = i := by
          rcases Nat.lt_or_ge i j with hl | hg
          · have := h3 i (Nat.le_refl _) hl
            rw [ho] at this; exact absurd this hom
          · omega
        subst this; rw [h5, h6]
    · simp only [ho, if_false]
      by_cases hm : peek cx st i = k.m
      · simp only [hm, if_true]
        rw [ih (i + 1) ms st']
        constructor
        · rintro ⟨j, h1, h2, h3, h4, h5, h6⟩
          refine ⟨j, by omega, by omega, ?_, h4, h5, h6⟩
          intro l a b
          rcases Nat.eq_or_lt_of_le a with e | lt
          · subst e; exact hm
          · exact h3 l lt b
        · rintro ⟨j, h1, h2, h3, h4, h5, h6⟩
          have : j ≠ i := by
            intro e; subst e; exact ho h4
          exact ⟨j, by omega, by omega, fun l a b => h3 l (by omega) b, h4, h5, h6⟩
      · simp only [hm, if_false]
        constructor
        · intro h; cases h
        · rintro ⟨j, h1, h2, h3, h4, h5, h6⟩
          rcases Nat.eq_or_lt_of_le h1 with e | lt
          · subst e; exact absurd h4 ho
          · exact absurd (h3 i (Nat.le_refl _) lt) hm


/-- Where a successful `raw_string_open` leaves the input: behind the opening bracket of level
    `n` and behind one line ending, if one follows. -/
def afterOpen (cx : Ctx) (st : St) (n : Nat) : St := (eolMatch cx (bumpInThisLine st (n + 2))).2.2

theorem peek_eq_iff (cx : Ctx) (st : St) (h : WF cx st) (i : Nat) (x : UInt8) (hi : st.cur.pos + i < st.endp) :
    peek cx st i = x ↔ cx.inp[st.cur.pos + i]? = some x := by
  rw [peek_eq]; exact getD_eq_iff _ _ _ (by rw [← h.1]; exact hi)

/-- `raw_string_open` succeeds exactly on an opening long bracket. -/
theorem rawOpen_iff (cx : Ctx) (k : Cfg) (st : St) (hom : k.o ≠ k.m) (h : WF cx st) (ms : Nat) (st' : St) :
    rawOpen cx k st = some (ms, st') ↔
      ∃ n, OpenAt k.o k.m cx.inp st.cur.pos n ∧ ms = n + 2 ∧ st' = afterOpen cx st n := by
  have hsz := h.1
  have hle := h.2
  unfold rawOpen
  by_cases he : st.cur.pos = st.endp
  · have : st.empty = true := by simp [St.empty, he]
    simp only [this, Bool.true_or, if_true]
    constructor
    · intro x; cases x
    · rintro ⟨n, ⟨h0, _, _⟩, _⟩
      have := lt_of_getElem? h0
      omega
  · have hne : st.empty = false := by simp [St.empty, he]
    have hlt : st.cur.pos + 0 < st.endp := by omega
    by_cases h0 : peek cx st 0 = k.o
    · have : (st.empty || peek cx st 0 != k.o) = false := by simp [hne, h0]
      simp only [this, Bool.false_eq_true, if_false]
      rw [openLoop_some cx k st hom]
      have h0' := (peek_eq_iff cx st h 0 k.o hlt).1 h0
      constructor
      · rintro ⟨j, h1, h2, h3, h4, h5, h6⟩
        have hj : st.cur.pos + j < st.endp := by simp only [St.avail] at h2; omega
        refine ⟨j - 1, ⟨h0', ?_, ?_⟩, by omega, ?_⟩
        · intro i hi
          have := h3 (1 + i) (by omega) (by omega)
          have := (peek_eq_iff cx st h (1 + i) k.m (by omega)).1 this
          rw [← this]; congr 1; omega
        · have := (peek_eq_iff cx st h j k.o hj).1 h4
          rw [← this]; congr 1; omega
        · have e : j - 1 + 2 = j + 1 := by omega
          rw [h6, afterOpen, e]
      · rintro ⟨n, ⟨_, h2, h3⟩, h4, h5⟩
        have hb := lt_of_getElem? h3
        refine ⟨n + 1, by omega, by simp only [St.avail]; omega, ?_, ?_, by omega, ?_⟩
        · intro l a b
          have := h2 (l - 1) (by omega)
          rw [peek_eq_iff cx st h l k.m (by omega), ← this]; congr 1; omega
        · rw [peek_eq_iff cx st h (n + 1) k.o (by omega), ← h3]; congr 1; omega
        · rw [h5, afterOpen]
    · have : (st.empty || peek cx st 0 != k.o) = true := by simp [hne, h0]
      simp only [this, if_true]
      constructor
      · intro x; cases x
      · rintro ⟨n, ⟨h1, _, _⟩, _⟩
        have := (peek_eq_iff cx st h 0 k.o hlt).2 h1
        exact absurd this h0


theorem eolLen_le (e : Eol) (s : Array UInt8) (q : Nat) (hq : q ≤ s.size) : q + eolLen e s q ≤ s.size := by
  unfold eolLen
  cases e <;> simp only [] <;> (repeat' split) <;> try omega
  all_goals first
    | (rename_i h; have := lt_of_getElem? h; omega)
    | (rename_i h; have := lt_of_getElem? h.2; omega)
    | (rename_i _ h; have := lt_of_getElem? h; omega)
    | (rename_i _ h; have := lt_of_getElem? h.2; omega)

theorem afterOpen_spec (cx : Ctx) (k : Cfg) (st : St) (n : Nat) (h : WF cx st)
    (ho : OpenAt k.o k.m cx.inp st.cur.pos n) :
    (afterOpen cx st n).cur.pos = st.cur.pos + n + 2 + eolLen cx.eol cx.inp (st.cur.pos + n + 2)
    ∧ WF cx (afterOpen cx st n) := by
  have hb := lt_of_getElem? ho.2.2
  have hw : WF cx (bumpInThisLine st (n + 2)) := by
    refine ⟨by simp [h.1], ?_⟩
    simp only [bumpInThisLine_pos, bumpInThisLine_endp]; rw [h.1]; omega
  have := eolMatch_pos cx _ hw
  simp only [bumpInThisLine_pos, bumpInThisLine_endp] at this
  have e : st.cur.pos + (n + 2) = st.cur.pos + n + 2 := by omega
  rw [e] at this
  refine ⟨this.1, ?_, ?_⟩
  · rw [afterOpen, this.2]; exact h.1
  · rw [afterOpen, this.2, this.1, h.1]
    exact eolLen_le _ _ _ (by omega)

theorem closeMarkers_iff (cx : Ctx) (k : Cfg) (st : St) :
    ∀ r i, closeMarkers cx k st r i = true ↔ ∀ l, i ≤ l → l < i + r → peek cx st (l + 1) = k.m := by
  intro r
  induction r with
  | zero => intro i; simp only [closeMarkers, true_iff]; intro l a b; omega
  | succ r ih =>
    intro i
    simp only [closeMarkers]
    by_cases hm : peek cx st (i + 1) = k.m
    · have : (peek cx st (i + 1) != k.m) = false := by simp [hm]
      simp only [this, Bool.false_eq_true, if_false]
      rw [ih (i + 1)]
      constructor
      · intro hh l a b
        rcases Nat.eq_or_lt_of_le a with e | lt
        · subst e; exact hm
        · exact hh l lt (by omega)
      · intro hh l a b
        exact hh l (by omega) (by omega)
    · have : (peek cx st (i + 1) != k.m) = true := by simp [hm]
      simp only [this, if_true]
      constructor
      · intro x; cases x
      · intro hh; exact absurd (hh i (Nat.le_refl _) (by omega)) hm

/-- `at_raw_string_close` holds exactly at a closing long bracket of level `marker_size - 2`. -/
theorem atClose_iff (cx : Ctx) (k : Cfg) (st : St) (h : WF cx st) (ms : Nat) (h2 : 2 ≤ ms) :
    atClose cx k st ms = true ↔ CloseAt k.m k.c cx.inp st.cur.pos (ms - 2) := by
  unfold atClose
  by_cases ha : st.avail < ms
  · simp only [ha, if_true]
    constructor
    · intro x; cases x
    · rintro ⟨_, _, h3⟩
      have := lt_of_getElem? h3
      simp only [St.avail] at ha
      have := h.1
      omega
  · simp only [ha, if_false]
    have hav : ms ≤ st.endp - st.cur.pos := by simp only [St.avail] at ha; omega
    have hsz := h.1
    have p0 := peek_eq_iff cx st h 0 k.c (by omega)
    have p1 := peek_eq_iff cx st h (ms - 1) k.c (by omega)
    by_cases c0 : peek cx st 0 = k.c
    · have : (peek cx st 0 != k.c) = false := by simp [c0]
      simp only [this, Bool.false_eq_true, if_false]
      by_cases c1 : peek cx st (ms - 1) = k.c
      · have : (peek cx st (ms - 1) != k.c) = false := by simp [c1]
        simp only [this, Bool.false_eq_true, if_false]
        rw [closeMarkers_iff]
        have e1 : st.cur.pos + 1 + (ms - 2) = st.cur.pos + (ms - 1) := by omega
        constructor
        · intro hh
          refine ⟨p0.1 c0, ?_, by rw [e1]; exact p1.1 c1⟩
          intro i hi
          have := hh i (Nat.zero_le _) (by omega)
          have := (peek_eq_iff cx st h (i + 1) k.m (by omega)).1 this
          rw [← this]; congr 1; omega
        · rintro ⟨_, hm, _⟩ l _ b
          have := hm l (by omega)
          rw [peek_eq_iff cx st h (l + 1) k.m (by omega), ← this]; congr 1; omega
      · have : (peek cx st (ms - 1) != k.c) = true := by simp [c1]
        simp only [this, if_true]
        constructor
        · intro x; cases x
        · rintro ⟨_, _, h3⟩
          have e1 : st.cur.pos + 1 + (ms - 2) = st.cur.pos + (ms - 1) := by omega
          rw [e1] at h3
          exact absurd (p1.2 h3) c1
    · have : (peek cx st 0 != k.c) = true := by simp [c0]
      simp only [this, if_true]
      constructor
      · intro x; cases x
      · rintro ⟨h1, _, _⟩
        exact absurd (p0.2 h1) c0


theorem WF_bump1 (cx : Ctx) (st : St) (h : WF cx st) (hne : st.cur.pos ≠ st.endp) : WF cx (bump cx st 1) := by
  refine ⟨by simp [h.1], ?_⟩
  have := h.2
  simp only [bump1_pos, bump1_endp]; omega

/-- The scanning loop of `raw_string_until< Cond >` stops at the first closing bracket of the
    level at or behind the cursor, or fails when there is none (given enough fuel). -/
theorem untilLoop_spec (cx : Ctx) (k : Cfg) (ms : Nat) (h2 : 2 ≤ ms) :
    ∀ (f : Nat) (st : St), WF cx st → st.avail < f →
      (∃ st', untilLoop cx k ms f st = some (true, st') ∧ WF cx st' ∧ st.cur.pos ≤ st'.cur.pos
          ∧ CloseAt k.m k.c cx.inp st'.cur.pos (ms - 2)
          ∧ ∀ q, st.cur.pos ≤ q → q < st'.cur.pos → ¬ CloseAt k.m k.c cx.inp q (ms - 2))
      ∨ (∃ st', untilLoop cx k ms f st = some (false, st')
          ∧ ∀ q, st.cur.pos ≤ q → ¬ CloseAt k.m k.c cx.inp q (ms - 2)) := by
  intro f
  induction f with
  | zero => intro st _ hf; omega
  | succ f ih =>
    intro st h hf
    simp only [untilLoop]
    by_cases hc : atClose cx k st ms = true
    · left
      simp only [hc, if_true]
      exact ⟨st, rfl, h, Nat.le_refl _, (atClose_iff cx k st h ms h2).1 hc, fun q a b => by omega⟩
    · simp only [hc, if_false]
      have hnc : ¬ CloseAt k.m k.c cx.inp st.cur.pos (ms - 2) := fun x => hc ((atClose_iff cx k st h ms h2).2 x)
      by_cases he : st.cur.pos = st.endp
      · right
        have : st.empty = true := by simp [St.empty, he]
        simp only [this, if_true]
        refine ⟨st, rfl, ?_⟩
        rintro q hq ⟨h0, _, _⟩
        have := lt_of_getElem? h0
        have := h.1
        omega
      · have : st.empty = false := by simp [St.empty, he]
        simp only [this, Bool.false_eq_true, if_false]
        have hw := WF_bump1 cx st h he
        have hav : (bump cx st 1).avail < f := by
          have := h.2
          simp only [St.avail, bump1_pos, bump1_endp] at hf ⊢; omega
        rcases ih (bump cx st 1) hw hav with ⟨st', e, w, le, c, fst⟩ | ⟨st', e, nn⟩
        · left
          simp only [bump1_pos] at le fst
          refine ⟨st', e, w, by omega, c, ?_⟩
          intro q a b
          rcases Nat.eq_or_lt_of_le a with e | lt
          · subst e; exact hnc
          · exact fst q lt b
        · right
          simp only [bump1_pos] at nn
          refine ⟨st', e, ?_⟩
          intro q a
          rcases Nat.eq_or_lt_of_le a with e | lt
          · subst e; exact hnc
          · exact nn q lt


/-- What is assumed of a content rule `R` (the C++ `seq< Contents... >` matched in
    `rewind_mode::optional`): its verdict and the position it reaches are a function `step` of the
    byte offset only; when it succeeds it stays inside the input and consumes at least one byte
    (a content rule that can succeed without consuming makes the C++ loop forever). -/
structure RuleOK (cx : Ctx) (R : St → Bool × St) (step : Nat → Option Nat) : Prop where
  ok : ∀ st, WF cx st → (R st).1 = true →
    WF cx (R st).2 ∧ st.cur.pos < (R st).2.cur.pos ∧ step st.cur.pos = some (R st).2.cur.pos
  fail : ∀ st, WF cx st → (R st).1 = false → step st.cur.pos = none

/-- The loop of `raw_string_until< Cond, Rule >` cuts the text into pieces matched by the rule. -/
theorem untilRuleLoop_spec (cx : Ctx) (k : Cfg) (ms : Nat) (h2 : 2 ≤ ms) (R : St → Bool × St)
    (step : Nat → Option Nat) (hR : RuleOK cx R step) :
    ∀ (f : Nat) (st : St), WF cx st → st.avail < f →
      (∃ st', untilRuleLoop cx k ms R f st = some (true, st') ∧ WF cx st'
          ∧ Pieces k.m k.c cx.inp (ms - 2) step st.cur.pos st'.cur.pos)
      ∨ (∃ st', untilRuleLoop cx k ms R f st = some (false, st')
          ∧ ∀ e, ¬ Pieces k.m k.c cx.inp (ms - 2) step st.cur.pos e) := by
  intro f
  induction f with
  | zero => intro st _ hf; omega
  | succ f ih =>
    intro st h hf
    simp only [untilRuleLoop]
    by_cases hc : atClose cx k st ms = true
    · left
      simp only [hc, if_true]
      exact ⟨st, rfl, h, Pieces.done ((atClose_iff cx k st h ms h2).1 hc)⟩
    · simp only [hc, if_false]
      have hnc : ¬ CloseAt k.m k.c cx.inp st.cur.pos (ms - 2) := fun x => hc ((atClose_iff cx k st h ms h2).2 x)
      have hok := hR.ok st h
      have hfail := hR.fail st h
      generalize R st = x at hok hfail
      obtain ⟨r, st1⟩ := x
      cases r with
      | true =>
        simp only [if_true]
        obtain ⟨w1, lt1, s1⟩ := hok rfl
        simp only at w1 lt1 s1
        have hav : st1.avail < f := by
          have := w1.2; have := w1.1; have := h.1
          simp only [St.avail] at hf ⊢; omega
        rcases ih st1 w1 hav with ⟨st', e, w, pc⟩ | ⟨st', e, nn⟩
        · left
          exact ⟨st', e, w, Pieces.piece hnc s1 pc⟩
        · right
          refine ⟨st', e, ?_⟩
          intro e' hp
          cases hp with
          | done c => exact hnc c
          | piece _ s2 pc =>
            rw [s1] at s2
            injection s2 with s2
            subst s2
            exact nn e' pc
      | false =>
        simp only [Bool.false_eq_true, if_false]
        right
        have s1 := hfail rfl
        refine ⟨st1, rfl, ?_⟩
        intro e' hp
        cases hp with
        | done c => exact hnc c
        | piece _ s2 _ => rw [s1] at s2; cases s2

theorem OpenAt_unique {o m : UInt8} {s : Array UInt8} {p n n' : Nat} (hom : o ≠ m)
    (h : OpenAt o m s p n) (h' : OpenAt o m s p n') : n = n' := by
  rcases Nat.lt_trichotomy n n' with lt | e | gt
  · have a := h.2.2
    have b := h'.2.1 n lt
    rw [a] at b; injection b with b; exact absurd b hom
  · exact e
  · have a := h'.2.2
    have b := h.2.1 n' gt
    rw [a] at b; injection b with b; exact absurd b hom

/-- A long literal at `p` is unique: level, content and end are determined by the text. -/
theorem Long_unique {o m c : UInt8} {eol : Eol} {s : Array UInt8} {p n b e n' b' e' : Nat} (hom : o ≠ m)
    (h : Long o m c eol s p n b e) (h' : Long o m c eol s p n' b' e') : n = n' ∧ b = b' ∧ e = e' := by
  have hn := OpenAt_unique hom h.opener h'.opener
  subst hn
  have hb : b = b' := by rw [h.skip, h'.skip]
  subst hb
  refine ⟨rfl, rfl, ?_⟩
  rcases Nat.lt_trichotomy e e' with lt | e | gt
  · exact absurd h.close (h'.first e h.body lt)
  · exact e
  · exact absurd h'.close (h.first e' h'.body gt)


theorem afterOpen_avail (cx : Ctx) (k : Cfg) (st : St) (n : Nat) (h : WF cx st)
    (ho : OpenAt k.o k.m cx.inp st.cur.pos n) : (afterOpen cx st n).avail < fuelFor st := by
  obtain ⟨hp, hw⟩ := afterOpen_spec cx k st n h ho
  have := hw.1; have := h.1; have := h.2
  simp only [St.avail, fuelFor]; omega

/-- The outcome of the rule-less `raw_string` is decided by the definition: either there is a
    long literal at the cursor and the rule matches exactly it, handing its content to the action,
    or there is none and the rule fails (restoring the cursor in `rewind_mode::required`). -/
theorem rawString_plain (cx : Ctx) (k : Cfg) (st : St) (hom : k.o ≠ k.m) (h : WF cx st)
    (act : Bool) (M : RMode) :
    (∃ n b e st' sp, Long k.o k.m k.c cx.eol cx.inp st.cur.pos n b e
        ∧ rawString cx k none act M (fuelFor st) st = some (true, st', sp)
        ∧ st'.cur.pos = e + n + 2 ∧ WF cx st'
        ∧ (act = true → ∃ cb ce, sp = some (cb, ce) ∧ cb.pos = b ∧ ce.pos = e)
        ∧ (act = false → sp = none))
    ∨ ((∀ n b e, ¬ Long k.o k.m k.c cx.eol cx.inp st.cur.pos n b e)
        ∧ ∃ st', rawString cx k none act M (fuelFor st) st = some (false, st', none)
          ∧ (M = .required → st'.cur = st.cur)) := by
  cases hro : rawOpen cx k st with
  | none =>
    right
    refine ⟨?_, st, by simp [rawString, hro], fun _ => rfl⟩
    intro n b e hl
    have := (rawOpen_iff cx k st hom h (n + 2) (afterOpen cx st n)).2 ⟨n, hl.opener, rfl, rfl⟩
    rw [hro] at this; cases this
  | some x =>
    obtain ⟨ms, st1⟩ := x
    obtain ⟨n, ho, hms, hst1⟩ := (rawOpen_iff cx k st hom h ms st1).1 hro
    subst hms hst1
    obtain ⟨hb, hw1⟩ := afterOpen_spec cx k st n h ho
    have hav := afterOpen_avail cx k st n h ho
    have e2 : n + 2 - 2 = n := by omega
    rcases untilLoop_spec cx k (n + 2) (by omega) (fuelFor st) (afterOpen cx st n) hw1 hav with
      ⟨st2, e, w2, le, cl, fst⟩ | ⟨st2, e, nn⟩
    · left
      rw [e2] at cl fst
      refine ⟨n, (afterOpen cx st n).cur.pos, st2.cur.pos, bumpInThisLine st2 (n + 2),
        if act then some ((afterOpen cx st n).cur, st2.cur) else none,
        ⟨ho, hb, le, cl, fst⟩, ?_, by simp only [bumpInThisLine_pos]; omega, ?_, ?_, ?_⟩
      · cases act <;> simp [rawString, hro, content, contentBody, e, rewindTo]
      · have hcl := lt_of_getElem? cl.2.2
        refine ⟨by simp [w2.1], ?_⟩
        have := w2.1
        simp only [bumpInThisLine_pos, bumpInThisLine_endp]; omega
      · intro ha; subst ha; exact ⟨_, _, rfl, rfl, rfl⟩
      · intro ha; subst ha; rfl
    · right
      rw [e2] at nn
      refine ⟨?_, ?_⟩
      · intro n' b' e' hl
        have hn := OpenAt_unique hom ho hl.opener
        subst hn
        have hb' : b' = (afterOpen cx st n).cur.pos := by rw [hl.skip, hb]
        subst hb'
        exact nn e' hl.body hl.close
      · cases act <;> cases M <;>
          simp [rawString, hro, content, contentBody, e, rewindTo]


/-- The same for `raw_string< Open, Marker, Close, Contents... >`, for any content rule that
    satisfies `RuleOK`. -/
theorem rawString_contents (cx : Ctx) (k : Cfg) (st : St) (hom : k.o ≠ k.m) (h : WF cx st)
    (act : Bool) (M : RMode) (R : St → Bool × St) (step : Nat → Option Nat) (hR : RuleOK cx R step) :
    (∃ n b e st' sp, LongWith k.o k.m k.c cx.eol cx.inp step st.cur.pos n b e
        ∧ rawString cx k (some R) act M (fuelFor st) st = some (true, st', sp)
        ∧ st'.cur.pos = e + n + 2
        ∧ (act = true → ∃ cb ce, sp = some (cb, ce) ∧ cb.pos = b ∧ ce.pos = e)
        ∧ (act = false → sp = none))
    ∨ ((∀ n b e, ¬ LongWith k.o k.m k.c cx.eol cx.inp step st.cur.pos n b e)
        ∧ ∃ st', rawString cx k (some R) act M (fuelFor st) st = some (false, st', none)
          ∧ (M = .required → st'.cur = st.cur)) := by
  cases hro : rawOpen cx k st with
  | none =>
    right
    refine ⟨?_, st, by simp [rawString, hro], fun _ => rfl⟩
    intro n b e hl
    have := (rawOpen_iff cx k st hom h (n + 2) (afterOpen cx st n)).2 ⟨n, hl.opener, rfl, rfl⟩
    rw [hro] at this; cases this
  | some x =>
    obtain ⟨ms, st1⟩ := x
    obtain ⟨n, ho, hms, hst1⟩ := (rawOpen_iff cx k st hom h ms st1).1 hro
    subst hms hst1
    obtain ⟨hb, hw1⟩ := afterOpen_spec cx k st n h ho
    have hav := afterOpen_avail cx k st n h ho
    have e2 : n + 2 - 2 = n := by omega
    rcases untilRuleLoop_spec cx k (n + 2) (by omega) R step hR (fuelFor st) (afterOpen cx st n) hw1 hav with
      ⟨st2, e, w2, pc⟩ | ⟨st2, e, nn⟩
    · left
      rw [e2] at pc
      refine ⟨n, (afterOpen cx st n).cur.pos, st2.cur.pos, bumpInThisLine st2 (n + 2),
        if act then some ((afterOpen cx st n).cur, st2.cur) else none,
        ⟨ho, hb, pc⟩, ?_, by simp only [bumpInThisLine_pos]; omega, ?_, ?_⟩
      · cases act <;> simp [rawString, hro, content, contentBody, e, rewindTo]
      · intro ha; subst ha; exact ⟨_, _, rfl, rfl, rfl⟩
      · intro ha; subst ha; rfl
    · right
      rw [e2] at nn
      refine ⟨?_, ?_⟩
      · intro n' b' e' hl
        have hn := OpenAt_unique hom ho hl.opener
        subst hn
        have hb' : b' = (afterOpen cx st n).cur.pos := by rw [hl.skip, hb]
        subst hb'
        exact nn e' hl.pieces
      · cases act <;> cases M <;>
          simp [rawString, hro, content, contentBody, e, rewindTo]

/-- The byte-offset meaning of the rule `any`: one byte, if there is one. -/
def anyStep (s : Array UInt8) (q : Nat) : Option Nat := if q < s.size then some (q + 1) else none

/-- `Contents = any` is a content rule in the sense of `RuleOK`. -/
theorem ruleOK_any (cx : Ctx) : RuleOK cx (seqAtoms cx [.any]) (anyStep cx.inp) := by
  constructor
  · intro st h hr
    by_cases he : st.cur.pos = st.endp
    · have : st.empty = true := by simp [St.empty, he]
      simp [seqAtoms, atomStep, this] at hr
    · have hne : st.empty = false := by simp [St.empty, he]
      have hh : seqAtoms cx [.any] st = (true, bump cx st 1) := by simp [seqAtoms, atomStep, hne]
      rw [hh]
      refine ⟨WF_bump1 cx st h he, by simp, ?_⟩
      have := h.1; have := h.2
      simp [anyStep]; omega
  · intro st h hr
    by_cases he : st.cur.pos = st.endp
    · have := h.1
      simp [anyStep]; omega
    · have hne : st.empty = false := by simp [St.empty, he]
      simp [seqAtoms, atomStep, hne] at hr

/-- Cut into single bytes, the content condition is the plain one: the literal ends at the first
    closing bracket of the level. -/
theorem pieces_any_iff (m c : UInt8) (s : Array UInt8) (n b e : Nat) :
    Pieces m c s n (anyStep s) b e ↔
      b ≤ e ∧ CloseAt m c s e n ∧ ∀ q, b ≤ q → q < e → ¬ CloseAt m c s q n := by
  constructor
  · intro hp
    induction hp with
    | done hc => exact ⟨Nat.le_refl _, hc, fun q a b => by omega⟩
    | piece hn hs _ ih =>
      rename_i q q' e
      unfold anyStep at hs
      split at hs
      · injection hs with hs
        subst hs
        obtain ⟨le, cl, fst⟩ := ih
        refine ⟨by omega, cl, ?_⟩
        intro x a bb
        rcases Nat.eq_or_lt_of_le a with e | lt
        · subst e; exact hn
        · exact fst x lt bb
      · cases hs
  · rintro ⟨le, cl, fst⟩
    obtain ⟨d, rfl⟩ : ∃ d, e = b + d := ⟨e - b, by omega⟩
    induction d generalizing b with
    | zero => exact Pieces.done cl
    | succ d ih =>
      have hlt : b < s.size := by
        have := lt_of_getElem? cl.1; omega
      refine Pieces.piece (q' := b + 1) (fst b (Nat.le_refl _) (by omega)) (by simp [anyStep, hlt]) ?_
      have e1 : b + (d + 1) = b + 1 + d := by omega
      rw [e1] at cl fst ⊢
      exact ih (b + 1) (by omega) cl (fun q a bb => fst q (by omega) bb)


theorem findFrom_some (P : Nat → Bool) :
    ∀ f i j, findFrom P f i = some j ↔ i ≤ j ∧ j < i + f ∧ P j = true ∧ ∀ l, i ≤ l → l < j → P l = false := by
  intro f
  induction f with
  | zero =>
    intro i j
    simp only [findFrom]
    constructor
    · intro x; cases x
    · rintro ⟨a, b, _⟩; omega
  | succ f ih =>
    intro i j
    simp only [findFrom]
    by_cases hp : P i = true
    · simp only [hp, if_true]
      constructor
      · intro x; injection x with x; subst x
        exact ⟨Nat.le_refl _, by omega, hp, fun l a b => by omega⟩
      · rintro ⟨a, _, _, d⟩
        rcases Nat.eq_or_lt_of_le a with e | lt
        · rw [e]
        · have := d i (Nat.le_refl _) lt
          rw [hp] at this; cases this
    · have hf : P i = false := by cases h : P i <;> simp_all
      simp only [hf, Bool.false_eq_true, if_false]
      rw [ih (i + 1) j]
      constructor
      · rintro ⟨a, b, c, d⟩
        refine ⟨by omega, by omega, c, ?_⟩
        intro l x y
        rcases Nat.eq_or_lt_of_le x with e | lt
        · subst e; exact hf
        · exact d l lt y
      · rintro ⟨a, b, c, d⟩
        have : j ≠ i := by intro e; subst e; rw [c] at hf; cases hf
        exact ⟨by omega, by omega, c, fun l x y => d l (by omega) y⟩

/-- The executable scanner of the spec computes exactly the relation `Long`. -/
theorem scan_iff (o m c : UInt8) (eol : Eol) (s : Array UInt8) (p n b e : Nat) (hom : o ≠ m) :
    scan o m c eol s p = some (n, b, e) ↔ Long o m c eol s p n b e := by
  unfold scan
  constructor
  · intro h
    split at h
    · cases h
    · rename_i n0 hn0
      obtain ⟨_, _, h3, _⟩ := (findFrom_some _ _ _ _).1 hn0
      have ho : OpenAt o m s p n0 := of_decide_eq_true h3
      simp only at h
      split at h
      · cases h
      · rename_i e0 he0
        obtain ⟨g1, _, g3, g4⟩ := (findFrom_some _ _ _ _).1 he0
        injection h with h
        injection h with h1 h
        injection h with h2 h3
        subst h1 h2 h3
        exact ⟨ho, rfl, g1, of_decide_eq_true g3, fun q a bb => of_decide_eq_false (g4 q a bb)⟩
  · intro hl
    have hn : n < s.size := by have := lt_of_getElem? hl.opener.2.2; omega
    have f1 : findFrom (fun n => decide (OpenAt o m s p n)) s.size 0 = some n := by
      rw [findFrom_some]
      refine ⟨Nat.zero_le _, by omega, decide_eq_true hl.opener, ?_⟩
      intro l _ lt
      apply decide_eq_false
      intro hx
      have := OpenAt_unique hom hx hl.opener
      omega
    simp only [f1]
    have he : e < s.size := lt_of_getElem? hl.close.1
    have f2 : findFrom (fun q => decide (CloseAt m c s q n)) (s.size + 1 - b) b = some e := by
      rw [findFrom_some]
      have := hl.body
      refine ⟨hl.body, by omega, decide_eq_true hl.close, ?_⟩
      intro l a bb
      exact decide_eq_false (hl.first l a bb)
    rw [← hl.skip]
    simp only [f2]


/-- The cut into pieces is determined by the text: a content rule is deterministic. -/
theorem Pieces_unique {m c : UInt8} {s : Array UInt8} {n : Nat} {step : Nat → Option Nat} {b e e' : Nat}
    (h : Pieces m c s n step b e) (h' : Pieces m c s n step b e') : e = e' := by
  induction h with
  | done hc =>
    cases h' with
    | done _ => rfl
    | piece hn _ _ => exact absurd hc hn
  | piece hn hs _ ih =>
    cases h' with
    | done hc => exact absurd hc hn
    | piece _ hs' hp' =>
      rw [hs] at hs'
      injection hs' with hs'
      subst hs'
      exact ih hp'

theorem LongWith_unique {o m c : UInt8} {eol : Eol} {s : Array UInt8} {step : Nat → Option Nat}
    {p n b e n' b' e' : Nat} (hom : o ≠ m)
    (h : LongWith o m c eol s step p n b e) (h' : LongWith o m c eol s step p n' b' e') :
    n = n' ∧ b = b' ∧ e = e' := by
  have hn := OpenAt_unique hom h.opener h'.opener
  subst hn
  have hb : b = b' := by rw [h.skip, h'.skip]
  subst hb
  exact ⟨rfl, rfl, Pieces_unique h.pieces h'.pieces⟩

/-- A fresh input is well formed. -/
theorem WF_start (cx : Ctx) : WF cx cx.start := by
  simp [WF, Ctx.start]

end Pegtl.RawString
