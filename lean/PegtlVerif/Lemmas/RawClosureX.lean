/-
  Lemmas/RawClosureX.lean — the exact form of the trace induction principle: every sub-rule call a body
  makes uses one apply mode (`Kind.childMode`) and one environment (`Kind.childEnv`), both determined by the
  kind of the body; the body's trace is the concatenation of those calls' traces, plus `raise` events, plus
  (for `state`) the bracket of the state object.  (Used where the predicate depends on mode and family: C13.)
-/
import PegtlVerif.Lemmas.RawClosureE

namespace Pegtl

structure RawClosedX (Q : List Ev → Prop) : Prop where
  nil : Q []
  app : ∀ {a b}, Q a → Q b → Q (a ++ b)
  scope : ∀ {l} (d : Nat) (o : List Ev), (o = [] ∨ ∃ c k, o = [Ev.ssucc d c k]) → Q l → Q (Ev.sctor d :: l ++ o ++ [Ev.sdtor d])

/-- The calls of rules in `S` made with apply mode `a` and environment `env` have traces satisfying `Q`. -/
def QRecX (Q : List Ev → Prop) (rec : Rec) (a : AMode) (env : Env) (S : List Nat) : Prop :=
  ∀ j ∈ S, ∀ m st r, rec j a m env st = some r → Q r.raw

/-- The apply mode with which a body of this kind calls its sub-rules. -/
def Kind.childMode : Kind → AMode → AMode
  | .atR _, _ => .nothing
  | .notAt _, _ => .nothing
  | .disable _, _ => .nothing
  | .enable _, _ => .action
  | _, a => a

/-- The environment a body of this kind passes to its sub-rules. -/
def Kind.childEnv : Kind → Env → Env
  | .action f _, env => { env with fam := f }
  | .state _ _, env => { env with sd := env.sd + 1 }
  | .control k _, env => { env with ctl := k }
  | _, env => env

section
variable {Q : List Ev → Prop} (hQ : RawClosedX Q) {rec : Rec}
include hQ

theorem seqAll_rawX (a : AMode) (env : Env) (S : List Nat) (hrec : QRecX Q rec a env S) (m : RMode) :
    ∀ (cs : List Nat), (∀ c ∈ cs, c ∈ S) → ∀ (st : St) (r : Ret), seqAll rec a m env cs st = some r → Q r.raw := by
  intro cs
  induction cs with
  | nil => intro _ st r h; simp only [seqAll, Option.some.injEq] at h; subst h; exact hQ.nil
  | cons c cs ih =>
    intro hcs st r h
    simp only [seqAll] at h
    split at h
    · exact absurd h (by simp)
    · rename_i r1 h1
      have q1 := hrec c (hcs c (List.mem_cons_self ..)) _ _ _ h1
      split at h
      · split at h
        · exact absurd h (by simp)
        · rename_i r2 h2
          simp only [Option.some.injEq] at h; subst h
          exact hQ.app q1 (ih (fun x hx => hcs x (List.mem_cons_of_mem _ hx)) _ _ h2)
      · simp only [Option.some.injEq] at h; subst h; exact q1

theorem sorAny_rawX (a : AMode) (env : Env) (S : List Nat) (hrec : QRecX Q rec a env S) (m : RMode) :
    ∀ (cs : List Nat), (∀ c ∈ cs, c ∈ S) → ∀ (st : St) (r : Ret), sorAny rec a m env cs st = some r → Q r.raw := by
  intro cs
  induction cs with
  | nil => intro _ st r h; simp only [sorAny, Option.some.injEq] at h; subst h; exact hQ.nil
  | cons c cs ih =>
    intro hcs st r h
    cases cs with
    | nil => simp only [sorAny] at h; exact hrec c (hcs c (List.mem_cons_self ..)) _ _ _ h
    | cons c' cs' =>
      simp only [sorAny] at h
      split at h
      · exact absurd h (by simp)
      · rename_i r1 h1
        have q1 := hrec c (hcs c (List.mem_cons_self ..)) _ _ _ h1
        split at h
        · split at h
          · exact absurd h (by simp)
          · rename_i r2 h2
            simp only [Option.some.injEq] at h; subst h
            exact hQ.app q1 (ih (fun x hx => hcs x (List.mem_cons_of_mem _ hx)) _ _ h2)
        · simp only [Option.some.injEq] at h; subst h; exact q1

theorem loopStar_rawX (a : AMode) (env : Env) (S : List Nat) (hrec : QRecX Q rec a env S) (cs : List Nat) (hcs : ∀ c ∈ cs, c ∈ S) :
    ∀ (k : Nat) (st : St) (r : Ret), loopStar rec a env cs k st = some r → Q r.raw := by
  intro k
  induction k with
  | zero => intro st r h; simp [loopStar] at h
  | succ k ih =>
    intro st r h
    simp only [loopStar] at h
    split at h
    · exact absurd h (by simp)
    · rename_i r1 h1
      have q1 := seqAll_rawX hQ a env S hrec .required cs hcs st r1 h1
      split at h
      · split at h
        · exact absurd h (by simp)
        · rename_i r2 h2
          simp only [Option.some.injEq] at h; subst h
          exact hQ.app q1 (ih _ _ h2)
      · simp only [Option.some.injEq] at h; subst h; exact q1
      · simp only [Option.some.injEq] at h; subst h; exact q1

theorem repN_rawX (a : AMode) (env : Env) (S : List Nat) (hrec : QRecX Q rec a env S) (m : RMode) (c : Nat) (hc : c ∈ S) :
    ∀ (k : Nat) (st : St) (r : Ret), repN rec a m env c k st = some r → Q r.raw := by
  intro k
  induction k with
  | zero => intro st r h; simp only [repN, Option.some.injEq] at h; subst h; exact hQ.nil
  | succ k ih =>
    intro st r h
    simp only [repN] at h
    split at h
    · exact absurd h (by simp)
    · rename_i r1 h1
      have q1 := hrec c hc _ _ _ h1
      split at h
      · split at h
        · exact absurd h (by simp)
        · rename_i r2 h2
          simp only [Option.some.injEq] at h; subst h
          exact hQ.app q1 (ih _ _ h2)
      · simp only [Option.some.injEq] at h; subst h; exact q1

theorem repUpTo_rawX (a : AMode) (env : Env) (S : List Nat) (hrec : QRecX Q rec a env S) (c : Nat) (hc : c ∈ S) :
    ∀ (k : Nat) (st : St) (r : Ret) (full : Bool), repUpTo rec a env c k st = some (r, full) → Q r.raw := by
  intro k
  induction k with
  | zero =>
    intro st r full h
    simp only [repUpTo, Option.some.injEq, Prod.mk.injEq] at h
    obtain ⟨h, _⟩ := h; subst h; exact hQ.nil
  | succ k ih =>
    intro st r full h
    simp only [repUpTo] at h
    split at h
    · exact absurd h (by simp)
    · rename_i r1 h1
      have q1 := hrec c hc _ _ _ h1
      split at h
      · split at h
        · exact absurd h (by simp)
        · rename_i r2 full2 h2
          simp only [Option.some.injEq, Prod.mk.injEq] at h
          obtain ⟨h, _⟩ := h; subst h
          exact hQ.app q1 (ih _ _ _ h2)
      · simp only [Option.some.injEq, Prod.mk.injEq] at h
        obtain ⟨h, _⟩ := h; subst h; exact q1
      · simp only [Option.some.injEq, Prod.mk.injEq] at h
        obtain ⟨h, _⟩ := h; subst h; exact q1

theorem loopUntil1_rawX (cx : Ctx) (a : AMode) (env : Env) (S : List Nat) (hrec : QRecX Q rec a env S) (cond : Nat) (hc : cond ∈ S) :
    ∀ (k : Nat) (st : St) (r : Ret), loopUntil1 cx rec a env cond k st = some r → Q r.raw := by
  intro k
  induction k with
  | zero => intro st r h; simp [loopUntil1] at h
  | succ k ih =>
    intro st r h
    simp only [loopUntil1] at h
    split at h
    · exact absurd h (by simp)
    · rename_i r1 h1
      have q1 := hrec cond hc _ _ _ h1
      split at h
      · simp only [Option.some.injEq] at h; subst h; exact q1
      · simp only [Option.some.injEq] at h; subst h; exact q1
      · split at h
        · simp only [Option.some.injEq] at h; subst h; exact q1
        · split at h
          · exact absurd h (by simp)
          · rename_i r2 h2
            simp only [Option.some.injEq] at h; subst h
            exact hQ.app q1 (ih _ _ h2)

theorem loopUntil2_rawX (a : AMode) (env : Env) (S : List Nat) (hrec : QRecX Q rec a env S) (cond b : Nat) (hc : cond ∈ S) (hb : b ∈ S) :
    ∀ (k : Nat) (st : St) (r : Ret), loopUntil2 rec a env cond b k st = some r → Q r.raw := by
  intro k
  induction k with
  | zero => intro st r h; simp [loopUntil2] at h
  | succ k ih =>
    intro st r h
    simp only [loopUntil2] at h
    split at h
    · exact absurd h (by simp)
    · rename_i r1 h1
      have q1 := hrec cond hc _ _ _ h1
      split at h
      · simp only [Option.some.injEq] at h; subst h; exact q1
      · simp only [Option.some.injEq] at h; subst h; exact q1
      · split at h
        · exact absurd h (by simp)
        · rename_i r2 h2
          have q2 := hrec b hb _ _ _ h2
          split at h
          · split at h
            · exact absurd h (by simp)
            · rename_i r3 h3
              simp only [Option.some.injEq] at h; subst h
              simp only [prepend_raw, List.append_assoc]
              exact hQ.app q1 (hQ.app q2 (ih _ _ h3))
          · simp only [Option.some.injEq] at h; subst h
            exact hQ.app q1 q2

theorem loopStarStrict_rawX (a : AMode) (env : Env) (S : List Nat) (hrec : QRecX Q rec a env S) (c rest : Nat) (hc : c ∈ S) (hr : rest ∈ S) :
    ∀ (k : Nat) (st : St) (r : Ret), loopStarStrict rec a env c rest k st = some r → Q r.raw := by
  intro k
  induction k with
  | zero => intro st r h; simp [loopStarStrict] at h
  | succ k ih =>
    intro st r h
    simp only [loopStarStrict] at h
    split at h
    · exact absurd h (by simp)
    · rename_i r1 h1
      have q1 := hrec c hc _ _ _ h1
      split at h
      · simp only [Option.some.injEq] at h; subst h; exact q1
      · simp only [Option.some.injEq] at h; subst h; exact q1
      · split at h
        · exact absurd h (by simp)
        · rename_i r2 h2
          have q2 := hrec rest hr _ _ _ h2
          split at h
          · split at h
            · exact absurd h (by simp)
            · rename_i r3 h3
              simp only [Option.some.injEq] at h; subst h
              simp only [prepend_raw, List.append_assoc]
              exact hQ.app q1 (hQ.app q2 (ih _ _ h3))
          · simp only [Option.some.injEq] at h; subst h
            exact hQ.app q1 q2

theorem rematchAll_rawX (a : AMode) (env : Env) (S : List Nat) (hrec : QRecX Q rec a env S) (saved : Cursor) :
    ∀ (rs : List Nat), (∀ c ∈ rs, c ∈ S) → ∀ (st : St) (r : Ret), rematchAll rec a env saved rs st = some r → Q r.raw := by
  intro rs
  induction rs with
  | nil => intro _ st r h; simp only [rematchAll, Option.some.injEq] at h; subst h; exact hQ.nil
  | cons c cs ih =>
    intro hcs st r h
    simp only [rematchAll] at h
    split at h
    · exact absurd h (by simp)
    · rename_i r1 h1
      have q1 := hrec c (hcs c (List.mem_cons_self ..)) _ _ _ h1
      split at h
      · split at h
        · exact absurd h (by simp)
        · rename_i r2 h2
          simp only [Option.some.injEq] at h; subst h
          exact hQ.app q1 (ih (fun x hx => hcs x (List.mem_cons_of_mem _ hx)) _ r2 h2)
      · simp only [Option.some.injEq] at h; subst h; exact q1

/-- The trace of every rule body satisfies any trace predicate closed under concatenation and
    `raise` events, given that the traces of the sub-rule calls it can make do: calls with its own
    apply mode, calls with actions disabled (`at`, `not_at`, `disable`), and — only for `enable` —
    calls with actions enabled. -/
theorem body_rawX (cx : Ctx) (k : Nat) (kind : Kind) (a : AMode) (m : RMode) (env : Env)
    (hrec : QRecX Q rec (kind.childMode a) (kind.childEnv env) kind.calls)
    (hraise : ∀ j, (kind = .must j ∨ kind = .raise j) → ∀ c, Q [Ev.raise j c])
    (hract : a = .action → ∀ (acts : List RuleAct) (b e : Cursor), Q (runActs cx env.sd b e acts).2) (st : St) (r : Ret)
    (h : body cx rec k kind a m env st = some r) : Q r.raw := by
  cases kind with
  | atom atm => simp only [body, Option.some.injEq] at h; subst h; exact hQ.nil
  | seq cs =>
    simp only [body] at h
    split at h
    · exact hrec _ (by simp [Kind.calls]) _ _ _ h
    · simp only [Option.map_eq_some_iff] at h
      obtain ⟨r0, h0, rfl⟩ := h
      simpa using seqAll_rawX hQ a env _ hrec _ _ (by intro x hx; simp [Kind.calls, hx]) _ _ h0
  | sor cs => simp only [body] at h; exact sorAny_rawX hQ a env _ hrec _ _ (by intro x hx; simp [Kind.calls, hx]) _ _ h
  | starPartial cs => simp only [body] at h; exact loopStar_rawX hQ a env _ hrec _ (by intro x hx; simp [Kind.calls, hx]) _ _ _ h
  | partialR cs =>
    simp only [body, Option.map_eq_some_iff] at h
    obtain ⟨r0, h0, rfl⟩ := h
    have := seqAll_rawX hQ a env _ hrec _ _ (by intro x hx; simp [Kind.calls, hx]) _ _ h0
    split <;> exact this
  | plus c =>
    simp only [body] at h
    split at h
    · exact absurd h (by simp)
    · rename_i r1 h1
      have q1 := hrec _ (by simp [Kind.calls]) _ _ _ h1
      split at h
      · simp only [Option.map_eq_some_iff] at h
        obtain ⟨r2, h2, rfl⟩ := h
        exact hQ.app q1 (loopStar_rawX hQ a env _ hrec _ (by intro x hx; simp [Kind.calls, hx]) _ _ _ h2)
      · simp only [Option.some.injEq] at h; subst h; exact q1
  | atR c =>
    simp only [body, Option.map_eq_some_iff] at h
    obtain ⟨r0, h0, rfl⟩ := h
    exact hrec _ (by simp [Kind.calls]) _ _ r0 h0
  | notAt c =>
    simp only [body, Option.map_eq_some_iff] at h
    obtain ⟨r0, h0, rfl⟩ := h
    have := hrec _ (by simp [Kind.calls]) _ _ _ h0
    split <;> exact this
  | until1 cond =>
    simp only [body, Option.map_eq_some_iff] at h
    obtain ⟨r0, h0, rfl⟩ := h
    simpa using loopUntil1_rawX hQ cx a env _ hrec _ (by simp [Kind.calls]) _ _ _ h0
  | until2 cond b =>
    simp only [body, Option.map_eq_some_iff] at h
    obtain ⟨r0, h0, rfl⟩ := h
    simpa using loopUntil2_rawX hQ a env _ hrec _ _ (by simp [Kind.calls]) (by simp [Kind.calls]) _ _ _ h0
  | rep n c =>
    simp only [body, Option.map_eq_some_iff] at h
    obtain ⟨r0, h0, rfl⟩ := h
    simpa using repN_rawX hQ a env _ hrec _ _ (by simp [Kind.calls]) _ _ _ h0
  | repMinMax lo hi c na =>
    simp only [body] at h
    split at h
    · exact absurd h (by simp)
    · rename_i r1 h1
      have q1 := repN_rawX hQ a env _ hrec _ _ (by simp [Kind.calls]) _ _ _ h1
      split at h
      · split at h
        · exact absurd h (by simp)
        · rename_i r2 full h2
          have q2 := repUpTo_rawX hQ a env _ hrec _ (by simp [Kind.calls]) _ _ _ _ h2
          split at h
          · split at h
            · exact absurd h (by simp)
            · rename_i r3 h3
              simp only [Option.some.injEq] at h; subst h
              have q3 := hrec _ (by simp [Kind.calls]) _ _ _ h3
              simp only [dropOnFail_raw, guardRestore_raw, prepend_raw]
              exact hQ.app (hQ.app q1 q2) q3
          · simp only [Option.some.injEq] at h; subst h
            simp only [dropOnFail_raw, guardRestore_raw, prepend_raw]
            exact hQ.app q1 q2
      · simp only [Option.some.injEq] at h; subst h
        simpa using q1
  | repOpt n c =>
    simp only [body, Option.map_eq_some_iff] at h
    obtain ⟨⟨r0, full⟩, h0, rfl⟩ := h
    exact repUpTo_rawX hQ a env _ hrec _ (by simp [Kind.calls]) _ _ _ _ h0
  | ifThenElse c t e =>
    simp only [body] at h
    split at h
    · exact absurd h (by simp)
    · rename_i r1 h1
      have q1 := hrec _ (by simp [Kind.calls]) _ _ _ h1
      split at h
      · simp only [Option.map_eq_some_iff] at h
        obtain ⟨r2, h2, rfl⟩ := h
        simpa using hQ.app q1 (hrec _ (by simp [Kind.calls]) _ _ _ h2)
      · simp only [Option.map_eq_some_iff] at h
        obtain ⟨r2, h2, rfl⟩ := h
        simpa using hQ.app q1 (hrec _ (by simp [Kind.calls]) _ _ _ h2)
      · simp only [Option.some.injEq] at h; subst h
        simpa using q1
  | strict c rest =>
    simp only [body] at h
    split at h
    · exact absurd h (by simp)
    · rename_i r1 h1
      have q1 := hrec _ (by simp [Kind.calls]) _ _ _ h1
      split at h
      · simp only [Option.map_eq_some_iff] at h
        obtain ⟨r2, h2, rfl⟩ := h
        simpa using hQ.app q1 (hrec _ (by simp [Kind.calls]) _ _ _ h2)
      · simp only [Option.some.injEq] at h; subst h; exact q1
      · simp only [Option.some.injEq] at h; subst h
        simpa using q1
  | starStrict c rest =>
    simp only [body, Option.map_eq_some_iff] at h
    obtain ⟨r0, h0, rfl⟩ := h
    simpa using loopStarStrict_rawX hQ a env _ hrec _ _ (by simp [Kind.calls]) (by simp [Kind.calls]) _ _ _ h0
  | rematch head rs =>
    simp only [body] at h
    split at h
    · exact hrec _ (by simp [Kind.calls]) _ _ _ h
    · split at h
      · exact absurd h (by simp)
      · rename_i r1 h1
        have q1 := hrec _ (by simp [Kind.calls]) _ _ _ h1
        split at h
        · split at h
          · exact absurd h (by simp)
          · rename_i r2 h2
            simp only [Option.some.injEq] at h; subst h
            have q2 := rematchAll_rawX hQ a env _ hrec _ _ (by intro x hx; simp [Kind.calls, hx]) _ _ h2
            simp only [dropOnFail_raw, guardRestore_raw, prepend_raw]
            exact hQ.app q1 q2
        · simp only [Option.some.injEq] at h; subst h
          simpa using q1
  | must c =>
    simp only [body] at h
    split at h
    · exact absurd h (by simp)
    · rename_i r1 h1
      have q1 := hrec _ (by simp [Kind.calls]) _ _ _ h1
      split at h
      · simp only [Option.some.injEq] at h; subst h
        exact hQ.app q1 (hraise _ (Or.inl rfl) _)
      · simp only [Option.some.injEq] at h; subst h; exact q1
  | ifMust dflt cond mn =>
    simp only [body] at h
    split at h
    · exact absurd h (by simp)
    · rename_i r1 h1
      have q1 := hrec _ (by simp [Kind.calls]) _ _ _ h1
      split at h
      · simp only [Option.map_eq_some_iff] at h
        obtain ⟨r2, h2, rfl⟩ := h
        have q2 := hrec _ (by simp [Kind.calls]) _ _ _ h2
        split
        · simpa using hQ.app q1 q2
        · exact hQ.app q1 q2
      · simp only [Option.some.injEq] at h; subst h; exact q1
      · simp only [Option.some.injEq] at h; subst h; exact q1
  | raise t =>
    simp only [body, Option.some.injEq] at h; subst h
    exact hraise _ (Or.inr rfl) _
  | tryCatchReturnFalse ex c =>
    simp only [body, Option.map_eq_some_iff] at h
    obtain ⟨r0, h0, rfl⟩ := h
    have q := hrec _ (by simp [Kind.calls]) _ _ _ h0
    simp only [dropOnFail_raw, guardRestore_raw]
    split
    · split <;> exact q
    · exact q
  | tryCatchRaiseNested ex c =>
    simp only [body, Option.map_eq_some_iff] at h
    obtain ⟨r0, h0, rfl⟩ := h
    have q := hrec _ (by simp [Kind.calls]) _ _ _ h0
    simp only [dropOnFail_raw, guardRestore_raw]
    split
    · split <;> exact q
    · exact q
  | enable c => simp only [body] at h; exact hrec _ (by simp [Kind.calls]) _ _ _ h
  | disable c => simp only [body] at h; exact hrec _ (by simp [Kind.calls]) _ _ _ h
  | action fam c => simp only [body] at h; exact hrec _ (by simp [Kind.calls]) _ _ _ h
  | state d c =>
    simp only [body, Option.map_eq_some_iff] at h
    obtain ⟨r0, h0, rfl⟩ := h
    have q := hrec _ (by simp [Kind.calls]) _ _ _ h0
    unfold stateScope
    split
    · exact hQ.scope _ _ (Or.inr ⟨_, _, rfl⟩) q
    · exact hQ.scope _ _ (Or.inl rfl) q
  | ifApply c acts =>
    simp only [body] at h
    split at h
    · rename_i hc
      simp only [Option.map_eq_some_iff] at h
      obtain ⟨r0, h0, rfl⟩ := h
      have h0' : rec c a .optional env st = some r0 := by rw [hc.1]; exact h0
      have q := hrec _ (by simp [Kind.calls]) _ _ _ h0'
      split
      · simp only [dropOnFail_raw, guardRestore_raw]
        exact hQ.app q (hract hc.1 _ _ _)
      · simpa using q
    · exact hrec _ (by simp [Kind.calls]) _ _ _ h
  | control kc c => simp only [body] at h; exact hrec _ (by simp [Kind.calls]) _ _ _ h
  | applyR acts =>
    simp only [body] at h
    split at h
    · rename_i hc
      simp only [Option.some.injEq] at h; subst h
      simpa using hract hc.1 acts st.cur st.cur
    · simp only [Option.some.injEq] at h; subst h
      exact hQ.nil



end

end Pegtl
