/-
  Lemmas/UriDen.lean — from PEG successes to languages.

  `Acc G i` is the set of byte strings some successful invocation of rule `i` has consumed.
  `sem_den`: a successful match of an expression `e` consumed a string of the *language* obtained
  from `e` by forgetting everything that makes a PEG a PEG — ordered choice becomes union, greedy
  repetition becomes Kleene star, predicates become ε, `raise` becomes ∅ — with rule references
  read as `Acc`.  This is the (only) direction needed for soundness "accepted ⇒ derivable".
  `DenN` additionally unfolds references to unnamed (hidden / anonymous) nodes, so that the
  language of a named rule is expressed over the named rules it mentions.
-/
import PegtlVerif.Spec.Peg
import PegtlVerif.Lemmas.SemDet

namespace Pegtl.Spec

abbrev Lang := List UInt8 → Prop

namespace Lang
def eps : Lang := fun s => s = []
def empty : Lang := fun _ => False
def cat (A B : Lang) : Lang := fun s => ∃ s₁ s₂, s = s₁ ++ s₂ ∧ A s₁ ∧ B s₂
def alt (A B : Lang) : Lang := fun s => A s ∨ B s

inductive Star (A : Lang) : Lang
  | nil : Star A []
  | cons {s t} : A s → Star A t → Star A (s ++ t)

theorem cat_mono {A A' B B' : Lang} (ha : ∀ s, A s → A' s) (hb : ∀ s, B s → B' s) : ∀ s, cat A B s → cat A' B' s :=
  fun _ ⟨s₁, s₂, e, h₁, h₂⟩ => ⟨s₁, s₂, e, ha _ h₁, hb _ h₂⟩

theorem alt_mono {A A' B B' : Lang} (ha : ∀ s, A s → A' s) (hb : ∀ s, B s → B' s) : ∀ s, alt A B s → alt A' B' s :=
  fun _ h => h.elim (fun h => Or.inl (ha _ h)) (fun h => Or.inr (hb _ h))

theorem star_mono {A A' : Lang} (ha : ∀ s, A s → A' s) : ∀ s, Star A s → Star A' s := by
  intro s h
  induction h with
  | nil => exact .nil
  | cons h₁ _ ih => exact .cons (ha _ h₁) ih
end Lang

open Lang

/-- The bytes `[p, q)` of the input. -/
def slice (inp : Array UInt8) (p q : Nat) : List UInt8 := (inp.toList.drop p).take (q - p)

theorem slice_self (inp : Array UInt8) (p : Nat) : slice inp p p = [] := by simp [slice]

theorem slice_append (inp : Array UInt8) {p m q : Nat} (h₁ : p ≤ m) (h₂ : m ≤ q) :
    slice inp p q = slice inp p m ++ slice inp m q := by
  unfold slice
  have e : q - p = (m - p) + (q - m) := by omega
  rw [e, List.take_add, List.drop_drop]
  congr 3
  omega

theorem slice_zero_size (inp : Array UInt8) : slice inp 0 inp.size = inp.toList := by
  unfold slice
  simp only [List.drop_zero, Nat.sub_zero]
  rw [← Array.length_toList]
  exact List.take_length

/-- What a successful atom may have consumed (an over-approximation that forgets the context). -/
def AtomLang (a : Atom) : Lang :=
  fun s => ∃ eol inp endp p q, endp ≤ inp.size ∧ atomSem eol inp endp a p = some q ∧ s = slice inp p q

/-- Strings consumed by successful invocations of rule `i`. -/
def Acc (G : Nat → Option PExp) (i : Nat) : Lang :=
  fun s => ∃ eol inp endp p q, endp ≤ inp.size ∧ Sem G eol inp endp (.ref i) p (.ok q) ∧ s = slice inp p q

/-- The language of an expression, references read through `ρ`. -/
def Den (ρ : Nat → Lang) : PExp → Lang
  | .eps => eps
  | .failE => empty
  | .atom a => AtomLang a
  | .ref i => ρ i
  | .seq a b => cat (Den ρ a) (Den ρ b)
  | .alt a b => alt (Den ρ a) (Den ρ b)
  | .star e => Star (Den ρ e)
  | .and_ _ => eps
  | .not_ _ => eps
  | .raise _ => empty
  | .catchF e => Den ρ e
  | .catchN _ e => Den ρ e
  | .sub h _ => Den ρ h

theorem atomSem_le {eol inp endp a p q} (h : atomSem eol inp endp a p = some q) : p ≤ q := by
  cases a <;> simp only [atomSem] at h
  all_goals try (split at h <;> simp at h <;> omega)
  case eol =>
    cases he : eolLen eol inp endp p <;> simp [he] at h
    omega
  case success => simp at h; omega
  case failure => simp at h
  case everything => simp at h; omega
  case bof => simp at h
  case bol => simp at h

/-- A successful match consumed `[p, q)` with `p ≤ q`, and that string is in the language of the expression. -/
theorem sem_den {G : Nat → Option PExp} {eol inp endp e p o} (h : Sem G eol inp endp e p o) :
    ∀ q, endp ≤ inp.size → o = .ok q → p ≤ q ∧ Den (Acc G) e (slice inp p q) := by
  induction h with
  | eps => intro q he ho; cases ho; exact ⟨Nat.le_refl _, slice_self _ _⟩
  | failE => intro q he ho; cases ho
  | atomOk ha => intro q he ho; cases ho; exact ⟨atomSem_le ha, _, _, _, _, _, he, ha, rfl⟩
  | atomFail => intro q he ho; cases ho
  | ref hG hS ih =>
    intro q he ho; cases ho
    exact ⟨(ih _ he rfl).1, _, _, _, _, _, he, .ref hG hS, rfl⟩
  | seqOk _ _ ih₁ ih₂ =>
    intro q he ho; cases ho
    obtain ⟨l₁, d₁⟩ := ih₁ _ he rfl
    obtain ⟨l₂, d₂⟩ := ih₂ _ he rfl
    exact ⟨Nat.le_trans l₁ l₂, _, _, slice_append inp l₁ l₂, d₁, d₂⟩
  | seqFail => intro q he ho; cases ho
  | seqErr => intro q he ho; cases ho
  | altOk _ ih => intro q he ho; cases ho; exact ⟨(ih _ he rfl).1, Or.inl (ih _ he rfl).2⟩
  | altErr => intro q he ho; cases ho
  | altFail _ _ _ ih₂ => intro q he ho; exact ⟨(ih₂ _ he ho).1, Or.inr (ih₂ _ he ho).2⟩
  | starDone => intro q he ho; cases ho; exact ⟨Nat.le_refl _, by rw [slice_self]; exact .nil⟩
  | starErr => intro q he ho; cases ho
  | starStep _ _ ih₁ ih₂ =>
    intro q he ho
    obtain ⟨l₁, d₁⟩ := ih₁ _ he rfl
    obtain ⟨l₂, d₂⟩ := ih₂ _ he ho
    refine ⟨Nat.le_trans l₁ l₂, ?_⟩
    rw [slice_append inp l₁ l₂]
    exact .cons d₁ d₂
  | andOk => intro q he ho; cases ho; exact ⟨Nat.le_refl _, slice_self _ _⟩
  | andFail => intro q he ho; cases ho
  | andErr => intro q he ho; cases ho
  | notOk => intro q he ho; cases ho
  | notFail => intro q he ho; cases ho; exact ⟨Nat.le_refl _, slice_self _ _⟩
  | notErr => intro q he ho; cases ho
  | raise => intro q he ho; cases ho
  | catchFOk _ ih => intro q he ho; cases ho; exact ih _ he rfl
  | catchFFail => intro q he ho; cases ho
  | catchFErr => intro q he ho; cases ho
  | catchNOk _ ih => intro q he ho; cases ho; exact ih _ he rfl
  | catchNFail => intro q he ho; cases ho
  | catchNErr => intro q he ho; cases ho
  | subOk _ _ ih₁ _ => intro q he ho; cases ho; exact ih₁ _ he rfl
  | subInnerFail => intro q he ho; cases ho
  | subInnerErr => intro q he ho; cases ho
  | subFail => intro q he ho; cases ho
  | subErr => intro q he ho; cases ho

/-- Cosmetic normal form of an expression with the same (or a larger) language: the trailing `eps` of
    `seqL`, the trailing `failE` of `altL`, the `raise` branch of `must`, predicates. -/
def norm : PExp → PExp
  | .seq a b =>
    match norm a, norm b with
    | a', .eps => a'
    | .eps, b' => b'
    | a', b' => .seq a' b'
  | .alt a b =>
    match norm a, norm b with
    | a', .failE => a'
    | a', .raise _ => a'
    | .eps, .eps => .eps
    | a', b' => .alt a' b'
  | .star e => .star (norm e)
  | .and_ _ => .eps
  | .not_ _ => .eps
  | e => e

theorem den_norm {ρ : Nat → Lang} : ∀ (e : PExp) (s : List UInt8), Den ρ e s → Den ρ (norm e) s
  | .seq a b, s, h => by
    obtain ⟨s₁, s₂, rfl, h₁, h₂⟩ := h
    have h₁ := den_norm a s₁ h₁
    have h₂ := den_norm b s₂ h₂
    simp only [norm]
    split
    · rename_i hb
      rw [hb] at h₂
      cases (show s₂ = [] from h₂)
      simpa using h₁
    · rename_i ha _
      rw [ha] at h₁
      cases (show s₁ = [] from h₁)
      simpa using h₂
    · exact ⟨s₁, s₂, rfl, h₁, h₂⟩
  | .alt a b, s, h => by
    have h : Den ρ (norm a) s ∨ Den ρ (norm b) s := h.elim (fun h => Or.inl (den_norm a s h)) (fun h => Or.inr (den_norm b s h))
    simp only [norm]
    split
    · rename_i hb
      rw [hb] at h
      exact h.elim id (fun h => h.elim)
    · rename_i hb
      rw [hb] at h
      exact h.elim id (fun h => h.elim)
    · rename_i ha hb
      rw [ha, hb] at h
      exact h.elim id id
    · exact h
  | .star e, s, h => star_mono (den_norm e) s h
  | .and_ _, _, h => h
  | .not_ _, _, h => h
  | .eps, _, h => h
  | .failE, _, h => h
  | .atom _, _, h => h
  | .ref _, _, h => h
  | .raise _, _, h => h
  | .catchF _, _, h => h
  | .catchN _ _, _, h => h
  | .sub _ _, _, h => h

/-- The language of an expression with references to nodes that are not `named` unfolded (at most
    `fuel` levels deep; structural in the fuel so that it computes by `rfl`). -/
def DenN (G : Nat → Option PExp) (named : Nat → Bool) : Nat → PExp → Lang
  | 0, e => Den (Acc G) e
  | f + 1, e =>
    match e with
    | .eps => eps
    | .failE => empty
    | .atom a => AtomLang a
    | .ref i => if named i then Acc G i else
        match G i with
        | some b => DenN G named f (norm b)
        | none => empty
    | .seq a b => cat (DenN G named f a) (DenN G named f b)
    | .alt a b => alt (DenN G named f a) (DenN G named f b)
    | .star e => Star (DenN G named f e)
    | .and_ _ => eps
    | .not_ _ => eps
    | .raise _ => empty
    | .catchF e => DenN G named f e
    | .catchN _ e => DenN G named f e
    | .sub h _ => DenN G named f h

/-- An accepted string of rule `i` is in the language of its body. -/
theorem acc_body {G : Nat → Option PExp} {i : Nat} {s : List UInt8} (h : Acc G i s) :
    ∃ b, G i = some b ∧ Den (Acc G) b s := by
  obtain ⟨eol, inp, endp, p, q, he, hS, rfl⟩ := h
  cases hS with
  | ref hG hS => exact ⟨_, hG, (sem_den hS _ he rfl).2⟩

theorem den_denN {G : Nat → Option PExp} {named : Nat → Bool} : ∀ (f : Nat) (e : PExp) (s : List UInt8),
    Den (Acc G) e s → DenN G named f e s
  | 0, _, _, h => h
  | f + 1, e, s, h => by
    cases e with
    | eps => exact h
    | failE => exact h
    | atom a => exact h
    | ref i =>
      simp only [DenN]
      split
      · exact h
      · obtain ⟨b, hb, hd⟩ := acc_body h
        rw [hb]
        exact den_denN f (norm b) s (den_norm b s hd)
    | seq a b => exact cat_mono (den_denN f a) (den_denN f b) s h
    | alt a b => exact alt_mono (den_denN f a) (den_denN f b) s h
    | star e => exact star_mono (den_denN f e) s h
    | and_ e => exact h
    | not_ e => exact h
    | raise l => exact h
    | catchF e => exact den_denN f e s h
    | catchN l e => exact den_denN f e s h
    | sub a b => exact den_denN f a s h

/-- Unfolding principle used rule by rule: what rule `i` accepts is in the language of its body,
    anonymous sub-expressions expanded. -/
theorem acc_unfold {G : Nat → Option PExp} (named : Nat → Bool) (f : Nat) {i : Nat} {b : PExp} (hG : G i = some b)
    {s : List UInt8} (h : Acc G i s) : DenN G named f (norm b) s := by
  obtain ⟨b', hb', hd⟩ := acc_body h
  rw [hG] at hb'; cases hb'
  exact den_denN f (norm b) s (den_norm b s hd)

/-- The same with the body looked up by computation. -/
theorem acc_unfold' {G : Nat → Option PExp} (named : Nat → Bool) (f : Nat) (i : Nat)
    {s : List UInt8} (h : Acc G i s) : DenN G named f (norm ((G i).getD .failE)) s := by
  obtain ⟨b, hb, _⟩ := acc_body h
  have := acc_unfold named f hb h
  rw [hb]; exact this

end Pegtl.Spec
