/-
  Lemmas/WftCheck.lean — a decidable check of the table conditions `WFT`, so that concrete
  grammars (the non-vacuity examples, and every corpus grammar the driver is given) can be shown
  to satisfy the hypotheses of the refinement theorems by evaluation.
-/
import PegtlVerif.Lemmas.SemBody

namespace Pegtl

def plainB (s : ActionSpec) : Bool := s.throwMod == 0 && (!s.isBool || s.vetoMod == 0) && s.wrap == .none

def isMustB (g : Grammar) (c : Nat) : Bool :=
  match g[c]? with
  | some nd => match nd.kind with
    | .must _ => true
    | _ => false
  | none => false

def mustLikeB (g : Grammar) (i : Nat) : Bool :=
  match g[i]? with
  | some nd => match nd.kind with
    | .atom .success => true
    | .must _ => true
    | .seq cs => cs.all (isMustB g)
    | _ => false
  | none => false

def nodeOkB (g : Grammar) (nd : Node) : Bool :=
  match nd.kind with
  | .atom a => a.offsetOnly
  | .repMinMax _ _ c na => match g[na]? with
    | some nd' => nd'.kind == .notAt c
    | none => false
  | .ifMust _ _ mn => mustLikeB g mn
  | .ifApply _ acts => acts.all RuleAct.plain
  | .applyR acts => acts.all RuleAct.plain
  | _ => true

/-- All conditions of `WFT`, computably. -/
def wftCheck (cx : Ctx) : Bool :=
  cx.g.toList.all (fun nd => nodeOkB cx.g nd && plainB nd.act) &&
  cx.fams.toList.all (fun row => row.toList.all plainB) && cx.msgs.isEmpty

theorem plainB_sound {s : ActionSpec} (h : plainB s = true) : PlainAct s := by
  simp only [plainB, Bool.and_eq_true, beq_iff_eq, Bool.or_eq_true, Bool.not_eq_true'] at h
  exact ⟨h.1.1, h.1.2, h.2⟩

theorem plain_default : PlainAct ({} : ActionSpec) := ⟨rfl, Or.inl rfl, rfl⟩

theorem isMustB_sound {g : Grammar} {c : Nat} (h : isMustB g c = true) :
    ∃ ndc c', g[c]? = some ndc ∧ ndc.kind = .must c' := by
  unfold isMustB at h
  split at h
  · rename_i nd hn
    split at h
    · rename_i c' hk; exact ⟨nd, c', hn, hk⟩
    · simp at h
  · simp at h

theorem mustLikeB_sound {g : Grammar} {i : Nat} (h : mustLikeB g i = true) : MustLike g i := by
  unfold mustLikeB at h
  split at h
  · rename_i nd hn
    refine ⟨nd, hn, ?_⟩
    split at h
    · rename_i hk; exact Or.inl hk
    · rename_i c hk; exact Or.inr (Or.inl ⟨c, hk⟩)
    · rename_i cs hk
      refine Or.inr (Or.inr ⟨cs, hk, ?_⟩)
      intro c hc
      exact isMustB_sound (List.all_eq_true.mp h c hc)
    · simp at h
  · simp at h

theorem getElem?_mem_toList {α} {a : Array α} {i : Nat} {x : α} (h : a[i]? = some x) : x ∈ a.toList := by
  rw [← Array.getElem?_toList] at h
  exact List.mem_of_getElem? h

theorem wftCheck_sound {cx : Ctx} (h : wftCheck cx = true) : WFT cx := by
  simp only [wftCheck, Bool.and_eq_true, List.all_eq_true] at h
  obtain ⟨⟨hnodes, hfams⟩, hmsgs⟩ := h
  have hnode : ∀ (i : Nat) (nd : Node), cx.g[i]? = some nd → nodeOkB cx.g nd = true ∧ plainB nd.act = true := by
    intro i nd hn
    exact hnodes nd (getElem?_mem_toList hn)
  refine ⟨?_, ?_, ?_, ?_, ?_, List.isEmpty_iff.mp hmsgs⟩
  · intro i nd a hn hk
    have := (hnode i nd hn).1
    simpa [nodeOkB, hk] using this
  · intro i nd lo hi c na hn hk
    have := (hnode i nd hn).1
    simp only [nodeOkB, hk] at this
    split at this
    · rename_i nd' hn'
      exact ⟨nd', hn', by simpa using this⟩
    · simp at this
  · intro i nd d c mn hn hk
    have := (hnode i nd hn).1
    simp only [nodeOkB, hk] at this
    exact mustLikeB_sound this
  · intro env i nd hn
    unfold Ctx.actOf
    split
    · exact plainB_sound (hnode i nd hn).2
    · -- a family table: a row that exists was checked, a missing entry is the default action
      have hrowp : ∀ row : Array ActionSpec, row ∈ cx.fams.toList ∨ row = #[] →
          PlainAct (row.getD i {}) := by
        intro row hr
        cases he : row[i]? with
        | none => simp [Array.getD_eq_getD_getElem?, he, plain_default]
        | some s =>
          simp only [Array.getD_eq_getD_getElem?, he, Option.getD_some]
          rcases hr with hr | hr
          · exact plainB_sound (hfams row hr s (getElem?_mem_toList he))
          · subst hr; simp at he
      apply hrowp
      cases hrow : cx.fams[env.fam - 1]? with
      | none => right; simp [Array.getD_eq_getD_getElem?, hrow]
      | some row => left; simp only [Array.getD_eq_getD_getElem?, hrow, Option.getD_some]; exact getElem?_mem_toList hrow

  · intro i nd hn
    have := (hnode i nd hn).1
    unfold PlainRuleActs
    cases hk : nd.kind <;> simp only [nodeOkB, hk, List.all_eq_true] at this ⊢ <;> first | exact this | trivial

end Pegtl
