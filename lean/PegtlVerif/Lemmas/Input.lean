/-
  Lemmas/Input.lean — facts about the cursor primitives and the atoms of Model/Input.lean.
-/
import PegtlVerif.Model.Input

namespace Pegtl

@[simp] theorem rd_cur (cx : Ctx) (st : St) (off : Nat) : (rd cx st off).2.cur = st.cur := by
  unfold rd; split <;> rfl

@[simp] theorem rd_endp (cx : Ctx) (st : St) (off : Nat) : (rd cx st off).2.endp = st.endp := by
  unfold rd; split <;> rfl

@[simp] theorem rd_depth (cx : Ctx) (st : St) (off : Nat) : (rd cx st off).2.depth = st.depth := by
  unfold rd; split <;> rfl

@[simp] theorem rd_avail (cx : Ctx) (st : St) (off : Nat) : (rd cx st off).2.avail = st.avail := by
  simp [St.avail]

theorem rd_oob (cx : Ctx) (st : St) (off : Nat) (h : st.cur.pos + off < st.endp) : (rd cx st off).2 = st := by
  unfold rd; simp [h]

theorem bumpScan_pos (inp : Array UInt8) (ch : UInt8) (n : Nat) (c : Cursor) :
    (bumpScan inp ch n c).pos = c.pos + n := by
  induction n generalizing c with
  | zero => simp [bumpScan]
  | succ k ih =>
    simp only [bumpScan]
    rw [ih]
    split <;> simp <;> omega

@[simp] theorem markOob_cur (st : St) (n : Nat) : (markOob st n).cur = st.cur := by
  unfold markOob; split <;> rfl

@[simp] theorem markOob_endp (st : St) (n : Nat) : (markOob st n).endp = st.endp := by
  unfold markOob; split <;> rfl

@[simp] theorem markOob_depth (st : St) (n : Nat) : (markOob st n).depth = st.depth := by
  unfold markOob; split <;> rfl

theorem markOob_ok (st : St) (n : Nat) (h : st.cur.pos + n ≤ st.endp) : markOob st n = st := by
  unfold markOob; simp [h]

@[simp] theorem bump_pos (cx : Ctx) (st : St) (n : Nat) : (bump cx st n).cur.pos = st.cur.pos + n := by
  simp [bump, bumpScan_pos]

@[simp] theorem bump_endp (cx : Ctx) (st : St) (n : Nat) : (bump cx st n).endp = st.endp := by
  simp [bump]

@[simp] theorem bump_depth (cx : Ctx) (st : St) (n : Nat) : (bump cx st n).depth = st.depth := by
  simp [bump]

@[simp] theorem bumpInThisLine_pos (st : St) (n : Nat) : (bumpInThisLine st n).cur.pos = st.cur.pos + n := by
  simp [bumpInThisLine, bumpInThisLineC]

@[simp] theorem bumpInThisLine_endp (st : St) (n : Nat) : (bumpInThisLine st n).endp = st.endp := by
  simp [bumpInThisLine]

@[simp] theorem bumpInThisLine_depth (st : St) (n : Nat) : (bumpInThisLine st n).depth = st.depth := by
  simp [bumpInThisLine]

@[simp] theorem bumpToNextLine_pos (st : St) (n : Nat) : (bumpToNextLine st n).cur.pos = st.cur.pos + n := by
  simp [bumpToNextLine, bumpToNextLineC]

@[simp] theorem bumpToNextLine_endp (st : St) (n : Nat) : (bumpToNextLine st n).endp = st.endp := by
  simp [bumpToNextLine]

@[simp] theorem bumpToNextLine_depth (st : St) (n : Nat) : (bumpToNextLine st n).depth = st.depth := by
  simp [bumpToNextLine]

@[simp] theorem bumpHelp_pos (cx : Ctx) (t : Bool) (st : St) (n : Nat) :
    (bumpHelp cx t st n).cur.pos = st.cur.pos + n := by
  unfold bumpHelp; split <;> simp

@[simp] theorem bumpHelp_endp (cx : Ctx) (t : Bool) (st : St) (n : Nat) : (bumpHelp cx t st n).endp = st.endp := by
  unfold bumpHelp; split <;> simp

@[simp] theorem bumpHelp_depth (cx : Ctx) (t : Bool) (st : St) (n : Nat) : (bumpHelp cx t st n).depth = st.depth := by
  unfold bumpHelp; split <;> simp

/-- What one atom step can do to the state: either leave the cursor alone (any result), or
    succeed and advance it by `k ≤ avail`; end and depth are never touched. -/
structure AtomFrame (st st' : St) (b : Bool) : Prop where
  endp : st'.endp = st.endp
  depth : st'.depth = st.depth
  fail_cur : b = false → st'.cur = st.cur
  mono : st.cur.pos ≤ st'.cur.pos
  inb : st.cur.pos ≤ st.endp → st'.cur.pos ≤ st.endp

theorem eolMatch_frame (cx : Ctx) (st : St) :
    (eolMatch cx st).2.2.endp = st.endp ∧ (eolMatch cx st).2.2.depth = st.depth ∧
    ((eolMatch cx st).1 = false → (eolMatch cx st).2.2.cur = st.cur) ∧
    st.cur.pos ≤ (eolMatch cx st).2.2.cur.pos := by
  unfold eolMatch
  cases cx.eol <;> simp only <;> (repeat' split) <;> simp_all

theorem eolMatch_inb (cx : Ctx) (st : St) (hle : st.cur.pos ≤ st.endp) :
    (eolMatch cx st).2.2.cur.pos ≤ st.endp := by
  have g0 : 0 < st.endp - st.cur.pos ↔ st.cur.pos < st.endp := by omega
  have g1 : 1 < st.endp - st.cur.pos ↔ st.cur.pos + 1 < st.endp := by omega
  unfold eolMatch
  by_cases h0 : st.cur.pos < st.endp <;> by_cases h1 : st.cur.pos + 1 < st.endp <;>
  by_cases a10 : cx.inp[st.cur.pos]?.getD 0 = 10 <;> by_cases a13 : cx.inp[st.cur.pos]?.getD 0 = 13 <;>
  by_cases b10 : cx.inp[st.cur.pos + 1]?.getD 0 = 10 <;>
  cases cx.eol <;>
  simp [St.avail, rd, bumpToNextLine, bumpToNextLineC, markOob, g0, g1, h0, h1, a10, a13, b10] <;> omega

theorem atomStep_frame (cx : Ctx) (a : Atom) (st : St) :
    AtomFrame st (atomStep cx a st).2 (atomStep cx a st).1 := by
  have he := eolMatch_frame cx st
  have hi := eolMatch_inb cx st
  cases a <;> simp only [atomStep] <;> (repeat' split) <;>
    first
    | (constructor <;> simp_all [St.avail, St.empty] <;> omega)
    | (constructor <;> simp_all [St.avail, St.empty])

end Pegtl
