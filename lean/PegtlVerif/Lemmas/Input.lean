/-
  Lemmas/Input.lean — facts about the cursor primitives and the atoms of Model/Input.lean.
-/
import PegtlVerif.Model.Input
import PegtlVerif.Lemmas.Utf

namespace Pegtl

@[simp] theorem rd_cur (cx : Ctx) (st : St) (off : Nat) : (rd cx st off).2.cur = st.cur := by
  unfold rd; split <;> rfl

@[simp] theorem rd_endp (cx : Ctx) (st : St) (off : Nat) : (rd cx st off).2.endp = st.endp := by
  unfold rd; split <;> rfl

@[simp] theorem rd_depth (cx : Ctx) (st : St) (off : Nat) : (rd cx st off).2.depth = st.depth := by
  unfold rd; split <;> rfl

@[simp] theorem rd_avail (cx : Ctx) (st : St) (off : Nat) : (rd cx st off).2.avail = st.avail := by
  simp [St.avail]

theorem rd_oob (cx : Ctx) (st : St) (off : Nat) (h : st.cur.pos + off < st.endp) : (rd cx st off).2 = st := by
  unfold rd; simp [h]

theorem bumpScan_pos (inp : Array UInt8) (ch : UInt8) (n : Nat) (c : Cursor) :
    (bumpScan inp ch n c).pos = c.pos + n := by
  induction n generalizing c with
  | zero => simp [bumpScan]
  | succ k ih =>
    simp only [bumpScan]
    rw [ih]
    split <;> simp <;> omega

@[simp] theorem markOob_cur (st : St) (n : Nat) : (markOob st n).cur = st.cur := by
  unfold markOob; split <;> rfl

@[simp] theorem markOob_endp (st : St) (n : Nat) : (markOob st n).endp = st.endp := by
  unfold markOob; split <;> rfl

@[simp] theorem markOob_depth (st : St) (n : Nat) : (markOob st n).depth = st.depth := by
  unfold markOob; split <;> rfl

theorem markOob_ok (st : St) (n : Nat) (h : st.cur.pos + n ≤ st.endp) : markOob st n = st := by
  unfold markOob; simp [h]

@[simp] theorem bump_pos (cx : Ctx) (st : St) (n : Nat) : (bump cx st n).cur.pos = st.cur.pos + n := by
  simp [bump, bumpScan_pos]

@[simp] theorem bump_endp (cx : Ctx) (st : St) (n : Nat) : (bump cx st n).endp = st.endp := by
  simp [bump]

@[simp] theorem bump_depth (cx : Ctx) (st : St) (n : Nat) : (bump cx st n).depth = st.depth := by
  simp [bump]

@[simp] theorem bumpInThisLine_pos (st : St) (n : Nat) : (bumpInThisLine st n).cur.pos = st.cur.pos + n := by
  simp [bumpInThisLine, bumpInThisLineC]

@[simp] theorem bumpInThisLine_endp (st : St) (n : Nat) : (bumpInThisLine st n).endp = st.endp := by
  simp [bumpInThisLine]

@[simp] theorem bumpInThisLine_depth (st : St) (n : Nat) : (bumpInThisLine st n).depth = st.depth := by
  simp [bumpInThisLine]

@[simp] theorem bumpToNextLine_pos (st : St) (n : Nat) : (bumpToNextLine st n).cur.pos = st.cur.pos + n := by
  simp [bumpToNextLine, bumpToNextLineC]

@[simp] theorem bumpToNextLine_endp (st : St) (n : Nat) : (bumpToNextLine st n).endp = st.endp := by
  simp [bumpToNextLine]

@[simp] theorem bumpToNextLine_depth (st : St) (n : Nat) : (bumpToNextLine st n).depth = st.depth := by
  simp [bumpToNextLine]

@[simp] theorem bumpHelp_pos (cx : Ctx) (t : Bool) (st : St) (n : Nat) :
    (bumpHelp cx t st n).cur.pos = st.cur.pos + n := by
  unfold bumpHelp; split <;> simp

@[simp] theorem bumpHelp_endp (cx : Ctx) (t : Bool) (st : St) (n : Nat) : (bumpHelp cx t st n).endp = st.endp := by
  unfold bumpHelp; split <;> simp

@[simp] theorem bumpHelp_depth (cx : Ctx) (t : Bool) (st : St) (n : Nat) : (bumpHelp cx t st n).depth = st.depth := by
  unfold bumpHelp; split <;> simp

theorem rd_noob (cx : Ctx) (st : St) (off : Nat) (h : st.cur.pos + off < st.endp) : (rd cx st off).2.oob = st.oob := by
  simp [rd, h]

theorem markOob_noob (st : St) (n : Nat) (h : st.cur.pos + n ≤ st.endp) : (markOob st n).oob = st.oob := by
  simp [markOob, h]

theorem bump_noob (cx : Ctx) (st : St) (n : Nat) (h : st.cur.pos + n ≤ st.endp) : (bump cx st n).oob = st.oob := by
  simp [bump, markOob, h]

theorem bumpInThisLine_noob (st : St) (n : Nat) (h : st.cur.pos + n ≤ st.endp) : (bumpInThisLine st n).oob = st.oob := by
  simp [bumpInThisLine, markOob, h]

theorem bumpHelp_noob (cx : Ctx) (t : Bool) (st : St) (n : Nat) (h : st.cur.pos + n ≤ st.endp) :
    (bumpHelp cx t st n).oob = st.oob := by
  unfold bumpHelp; split
  · exact bump_noob cx st n h
  · exact bumpInThisLine_noob st n h

/-- What one atom step can do to the state: either leave the cursor alone (any result), or
    succeed and advance it by `k ≤ avail`; end and depth are never touched. -/
structure AtomFrame (st st' : St) (b : Bool) : Prop where
  endp : st'.endp = st.endp
  depth : st'.depth = st.depth
  fail_cur : b = false → st'.cur = st.cur
  mono : st.cur.pos ≤ st'.cur.pos
  inb : st.cur.pos ≤ st.endp → st'.cur.pos ≤ st.endp
  noob : st.cur.pos ≤ st.endp → st.oob = false → st'.oob = false

theorem eolMatch_frame (cx : Ctx) (st : St) :
    (eolMatch cx st).2.2.endp = st.endp ∧ (eolMatch cx st).2.2.depth = st.depth ∧
    ((eolMatch cx st).1 = false → (eolMatch cx st).2.2.cur = st.cur) ∧
    st.cur.pos ≤ (eolMatch cx st).2.2.cur.pos := by
  unfold eolMatch
  cases cx.eol <;> simp only <;> (repeat' split) <;> simp_all

theorem eolMatch_inb (cx : Ctx) (st : St) (hle : st.cur.pos ≤ st.endp) :
    (eolMatch cx st).2.2.cur.pos ≤ st.endp := by
  have g0 : 0 < st.endp - st.cur.pos ↔ st.cur.pos < st.endp := by omega
  have g1 : 1 < st.endp - st.cur.pos ↔ st.cur.pos + 1 < st.endp := by omega
  unfold eolMatch
  by_cases h0 : st.cur.pos < st.endp <;> by_cases h1 : st.cur.pos + 1 < st.endp <;>
  by_cases a10 : cx.inp[st.cur.pos]?.getD 0 = 10 <;> by_cases a13 : cx.inp[st.cur.pos]?.getD 0 = 13 <;>
  by_cases b10 : cx.inp[st.cur.pos + 1]?.getD 0 = 10 <;>
  cases cx.eol <;>
  simp [St.avail, rd, bumpToNextLine, bumpToNextLineC, markOob, g0, g1, h0, h1, a10, a13, b10] <;> omega

theorem eolMatch_noob (cx : Ctx) (st : St) (hle : st.cur.pos ≤ st.endp) (ho : st.oob = false) :
    (eolMatch cx st).2.2.oob = false := by
  have g0 : 0 < st.endp - st.cur.pos ↔ st.cur.pos < st.endp := by omega
  have g1 : 1 < st.endp - st.cur.pos ↔ st.cur.pos + 1 < st.endp := by omega
  have e1 : st.cur.pos + 1 ≤ st.endp ↔ st.cur.pos < st.endp := by omega
  have e2 : st.cur.pos + 2 ≤ st.endp ↔ st.cur.pos + 1 < st.endp := by omega
  unfold eolMatch
  by_cases h0 : st.cur.pos < st.endp <;> by_cases h1 : st.cur.pos + 1 < st.endp <;>
  by_cases a10 : cx.inp[st.cur.pos]?.getD 0 = 10 <;> by_cases a13 : cx.inp[st.cur.pos]?.getD 0 = 13 <;>
  by_cases b10 : cx.inp[st.cur.pos + 1]?.getD 0 = 10 <;>
  cases cx.eol <;>
  simp [St.avail, rd, bumpToNextLine, bumpToNextLineC, markOob, g0, g1, e1, e2, h0, h1, a10, a13, b10, ho] <;> (try omega)

theorem atomStep_frame (cx : Ctx) (a : Atom) (st : St) :
    AtomFrame st (atomStep cx a st).2 (atomStep cx a st).1 := by
  have he := eolMatch_frame cx st
  have hi := eolMatch_inb cx st
  have hno := eolMatch_noob cx st
  have triv : ∀ b, AtomFrame st st b := fun b => ⟨rfl, rfl, fun _ => rfl, Nat.le_refl _, id, fun _ h => h⟩
  -- a successful step that consumes `n ≤ avail` bytes after reads inside the window
  have adv : ∀ (st' : St) (n : Nat), st'.endp = st.endp → st'.depth = st.depth → st'.cur.pos = st.cur.pos + n →
      (st.cur.pos ≤ st.endp → st.cur.pos + n ≤ st.endp) → (st.cur.pos ≤ st.endp → st'.oob = st.oob) →
      AtomFrame st st' true := by
    intro st' n h1 h2 h3 h4 h5
    exact ⟨h1, h2, by simp, by omega, fun hv => by have := h4 hv; omega, fun hv ho => by rw [h5 hv]; exact ho⟩
  -- reading one byte when the window is not empty changes nothing but is in bounds
  have rd0 : ¬ st.cur.pos = st.endp → st.cur.pos ≤ st.endp → (rd cx st 0).2 = st := by
    intro hne hle; exact rd_oob cx st 0 (by omega)
  cases a with
  | any =>
    simp only [atomStep, St.empty, beq_iff_eq]
    split
    · exact triv _
    · rename_i hne
      exact adv _ 1 (by simp) (by simp) (by simp) (by omega) (fun hv => bump_noob cx st 1 (by omega))
  | one found cs =>
    simp only [atomStep, St.empty, beq_iff_eq]
    split
    · exact triv _
    · rename_i hne
      split
      · refine adv _ 1 (by simp) (by simp) (by simp) (by omega) (fun hv => ?_)
        rw [bumpHelp_noob _ _ _ _ (by simp; omega), rd0 hne hv]
      · exact ⟨by simp, by simp, fun _ => by simp, by simp, fun hv => by simpa using hv, fun hv ho => by rw [rd0 hne hv]; exact ho⟩
  | range found lo hi =>
    simp only [atomStep, St.empty, beq_iff_eq]
    split
    · exact triv _
    · rename_i hne
      split
      · refine adv _ 1 (by simp) (by simp) (by simp) (by omega) (fun hv => ?_)
        rw [bumpHelp_noob _ _ _ _ (by simp; omega), rd0 hne hv]
      · exact ⟨by simp, by simp, fun _ => by simp, by simp, fun hv => by simpa using hv, fun hv ho => by rw [rd0 hne hv]; exact ho⟩
  | ranges rs single =>
    simp only [atomStep, St.empty, beq_iff_eq]
    split
    · exact triv _
    · rename_i hne
      split
      · refine adv _ 1 (by simp) (by simp) (by simp) (by omega) (fun hv => ?_)
        rw [bumpHelp_noob _ _ _ _ (by simp; omega), rd0 hne hv]
      · exact ⟨by simp, by simp, fun _ => by simp, by simp, fun hv => by simpa using hv, fun hv ho => by rw [rd0 hne hv]; exact ho⟩
  | string cs =>
    simp only [atomStep, St.avail]
    by_cases hsz : st.endp - st.cur.pos ≥ cs.length
    · by_cases hc : cmpBytes cx (fun x1 x2 => x1 == x2) st.cur.pos cs = true
      · simp only [hsz, hc, if_true]
        exact adv _ cs.length (by simp) (by simp) (by simp) (by omega) (fun hv => bumpHelp_noob _ _ _ _ (by omega))
      · simp only [hsz, hc, if_true]
        exact triv _
    · simp only [hsz, if_false]
      exact triv _
  | istring cs =>
    simp only [atomStep, St.avail]
    by_cases hsz : st.endp - st.cur.pos ≥ cs.length
    · by_cases hc : cmpBytes cx icharEqual st.cur.pos cs = true
      · simp only [hsz, hc, if_true]
        exact adv _ cs.length (by simp) (by simp) (by simp) (by omega) (fun hv => bumpHelp_noob _ _ _ _ (by omega))
      · simp only [hsz, hc, if_true]
        exact triv _
    · simp only [hsz, if_false]
      exact triv _
  | bytes n =>
    simp only [atomStep, St.avail]
    by_cases hsz : st.endp - st.cur.pos ≥ n
    · simp only [hsz, if_true]
      exact adv _ n (by simp) (by simp) (by simp) (by omega) (fun hv => bump_noob _ _ _ (by omega))
    · simp only [hsz, if_false]
      exact triv _
  | eof => simp only [atomStep]; exact triv _
  | bof => simp only [atomStep]; exact triv _
  | bol => simp only [atomStep]; exact triv _
  | eol =>
    simp only [atomStep]
    exact ⟨he.1, he.2.1, he.2.2.1, he.2.2.2, hi, hno⟩
  | eolf =>
    simp only [atomStep]
    refine ⟨he.1, he.2.1, ?_, he.2.2.2, hi, hno⟩
    intro hb
    apply he.2.2.1
    cases h : (eolMatch cx st).1 <;> simp_all
  | success => simp only [atomStep]; exact triv _
  | failure => simp only [atomStep]; exact triv _
  | everything =>
    simp only [atomStep, St.avail]
    exact adv _ (st.endp - st.cur.pos) (by simp) (by simp) (by simp) (by omega) (fun hv => bump_noob _ _ _ (by omega))
  | require n => simp only [atomStep]; exact triv _
  | utf8Range found lo hi =>
    simp only [atomStep]
    cases hp : Utf.peekUtf8 (windowBytes cx st) with
    | none => exact triv _
    | some v =>
      obtain ⟨cp, n⟩ := v
      simp only
      have hsz : n ≤ st.endp - st.cur.pos := by
        have h1 := (Utf.peek_size .utf8 trivial (windowBytes cx st) (cp : Int) n (by simp [Utf.Peek.peek, Utf.liftNat, hp])).2.2
        have h2 : (windowBytes cx st).length ≤ st.endp - st.cur.pos := by
          simp only [windowBytes, St.avail, List.length_take]; omega
        omega
      by_cases hc : (decide (lo ≤ cp ∧ cp ≤ hi) == found) = true
      · simp only [hc, if_true]
        exact adv _ n (by simp) (by simp) (by simp) (by omega) (fun hv => bumpHelp_noob _ _ _ _ (by omega))
      · simp only [hc]
        exact triv _
  | repOne lo hi c =>
    simp only [atomStep]
    have hsz : (((windowBytes cx st).take (hi + 1)).takeWhile (· == c)).length ≤ st.endp - st.cur.pos := by
      have h1 := (List.takeWhile_sublist (l := (windowBytes cx st).take (hi + 1)) (· == c)).length_le
      have h2 : (windowBytes cx st).length ≤ st.endp - st.cur.pos := by
        simp only [windowBytes, St.avail, List.length_take]; omega
      have h3 : ((windowBytes cx st).take (hi + 1)).length ≤ (windowBytes cx st).length := by
        simp only [List.length_take]; omega
      omega
    by_cases h1 : ((windowBytes cx st).take (hi + 1)).length < lo
    · simp only [h1, if_true]; exact triv _
    · simp only [h1]
      by_cases h2 : lo ≤ (((windowBytes cx st).take (hi + 1)).takeWhile (· == c)).length ∧
          (((windowBytes cx st).take (hi + 1)).takeWhile (· == c)).length ≤ hi
      · simp only [h2, and_self, if_true]
        exact adv _ (((windowBytes cx st).take (hi + 1)).takeWhile (· == c)).length (by simp) (by simp) (by simp) (by omega)
          (fun hv => bumpHelp_noob _ _ _ _ (by omega))
      · simp only [h2]; exact triv _
  | maxDigits mx =>
    simp only [atomStep]
    have hsz : ((windowBytes cx st).takeWhile isDigitB).length ≤ st.endp - st.cur.pos := by
      have h1 := (List.takeWhile_sublist (l := windowBytes cx st) isDigitB).length_le
      have h2 : (windowBytes cx st).length ≤ st.endp - st.cur.pos := by
        simp only [windowBytes, St.avail, List.length_take]; omega
      omega
    by_cases h1 : ((windowBytes cx st).takeWhile isDigitB).isEmpty = true
    · simp only [h1, if_true]; exact triv _
    · simp only [h1]
      by_cases h2 : ((windowBytes cx st).takeWhile isDigitB).length > 1 ∧ ((windowBytes cx st).takeWhile isDigitB).head? = some 48
      · simp only [h2, if_true]; exact triv _
      · simp only [h2]
        by_cases h3 : digitsValue ((windowBytes cx st).takeWhile isDigitB) ≤ mx
        · simp only [h3, if_true]
          exact adv _ ((windowBytes cx st).takeWhile isDigitB).length (by simp) (by simp) (by simp) (by omega)
            (fun hv => bumpInThisLine_noob _ _ (by omega))
        · simp only [h3]; exact triv _

end Pegtl
