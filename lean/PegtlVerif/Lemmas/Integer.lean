/-
  Lemmas/Integer.lean — helper lemmas for property C15 (Model/Integer.lean vs Spec/Numeral.lean).
-/
import PegtlVerif.Model.Integer
import PegtlVerif.Spec.Numeral
import PegtlVerif.Spec.Peg

namespace Pegtl.Integer
open Pegtl.Spec.Numeral (value digitVal AllDigits digitRun Canonical unsignedLen signedLen signedValue)
open Pegtl.Spec

/-! ### digits -/

theorem isDigit_iff (c : UInt8) : isDigit c = true ↔ 48 ≤ c.toNat ∧ c.toNat ≤ 57 := by
  simp [isDigit, UInt8.le_iff_toNat_le]

/-- The model's `is_digit` is the spec's digit class. -/
theorem isDigit_eq_spec : isDigit = Numeral.isDigit := by
  funext c
  rw [Bool.eq_iff_iff, isDigit_iff]
  simp [Numeral.isDigit]

theorem digitVal_le {c : UInt8} (h : isDigit c = true) : c.toNat - 48 ≤ 9 := by
  have := (isDigit_iff c).1 h; omega

theorem ne48_of_toNat {c : UInt8} : (c == 48) = false ↔ c ≠ 48 := by simp

/-! ### arithmetic of positional notation -/

theorem pow10_pos (n : Nat) : 0 < 10 ^ n := Nat.pow_pos (by decide)

/-- Horner step: appending the accumulated prefix. -/
theorem horner (st d n v : Nat) :
    st * 10 ^ (n + 1) + (d * 10 ^ n + v) = (st * 10 + d) * 10 ^ n + v := by
  rw [Nat.pow_succ, Nat.add_mul, Nat.mul_assoc, Nat.mul_comm 10 (10 ^ n)]
  omega

theorem le_horner (x n v : Nat) : x ≤ x * 10 ^ n + v :=
  Nat.le_trans (Nat.le_mul_of_pos_right x (pow10_pos n)) (Nat.le_add_right _ _)

theorem value_cons (c : UInt8) (ds : List UInt8) :
    value (c :: ds) = (c.toNat - 48) * 10 ^ ds.length + value ds := rfl

/-! ### accumulate_digit / accumulate_digits -/

theorem accDigit_spec {tmax max r : Nat} {c : UInt8} (hm : max ≤ tmax) (hd : c.toNat - 48 ≤ 9) :
    accDigit tmax max r c =
      if r * 10 + (c.toNat - 48) ≤ max then .ok (r * 10 + (c.toNat - 48)) else .overflow := by
  unfold accDigit
  generalize c.toNat - 48 = d at *
  simp only [Bool.or_eq_true, Bool.and_eq_true, decide_eq_true_eq, beq_iff_eq]
  by_cases h : r * 10 + d ≤ max
  · have h1 : ¬ (r > max / 10 ∨ r = max / 10 ∧ d > max % 10) := by omega
    have h2 : ¬ (r * 10 > tmax) := by omega
    have h3 : ¬ (r * 10 + d > tmax) := by omega
    simp [h1, h2, h3, h]
  · have h1 : (r > max / 10 ∨ r = max / 10 ∧ d > max % 10) := by omega
    simp [h1, h]

theorem accDigits_spec {tmax max : Nat} (hm : max ≤ tmax) :
    ∀ (ds : List UInt8) (r : Nat), r ≤ max → AllDigits ds →
      accDigits tmax max r ds =
        if r * 10 ^ ds.length + value ds ≤ max then .ok (r * 10 ^ ds.length + value ds) else .overflow := by
  intro ds
  induction ds with
  | nil => intro r hr _; simp [accDigits, value, hr]
  | cons c cs ih =>
    intro r hr hd
    have hc : isDigit c = true := by
      have := hd c (by simp); rwa [isDigit_eq_spec]
    have hcs : AllDigits cs := fun x hx => hd x (by simp [hx])
    rw [accDigits, accDigit_spec hm (digitVal_le hc), value_cons, List.length_cons, horner]
    by_cases h : r * 10 + (c.toNat - 48) ≤ max
    · simp only [h, if_true]
      exact ih _ h hcs
    · have := le_horner (r * 10 + (c.toNat - 48)) cs.length (value cs)
      have h' : ¬ ((r * 10 + (c.toNat - 48)) * 10 ^ cs.length + value cs ≤ max) := by omega
      simp [h, h']

theorem convertPositive_spec {tmax max : Nat} (hm : max ≤ tmax) (ds : List UInt8) (hd : AllDigits ds) :
    convertPositive tmax max ds = if value ds ≤ max then .ok (value ds) else .overflow := by
  unfold convertPositive
  rw [accDigits_spec hm ds 0 (Nat.zero_le _) hd]
  simp

/-! ### two's complement -/

theorem two_pow_pred {w : Nat} (hw : 1 ≤ w) : 2 ^ w = 2 * 2 ^ (w - 1) := by
  obtain ⟨k, rfl⟩ : ∃ k, w = k + 1 := ⟨w - 1, by omega⟩
  simp [Nat.pow_succ, Nat.mul_comm]

theorem smaxW_succ (w : Nat) : smaxW w + 1 = 2 ^ (w - 1) := by
  have := Nat.pow_pos (n := w - 1) (show 0 < 2 by decide)
  unfold smaxW; omega

/-- `static_cast< Signed >( static_cast< Unsigned >( ~t + 1 ) )` is `-t` for every `t ≤ 2^(w-1)`. -/
theorem negate_exact {w t : Nat} (hw : 1 ≤ w) (ht : t ≤ 2 ^ (w - 1)) :
    toSigned w ((umaxW w - t + 1) % 2 ^ w) = -(t : Int) := by
  have hP := Nat.pow_pos (n := w - 1) (show 0 < 2 by decide)
  have h2 := two_pow_pred hw
  unfold umaxW toSigned
  generalize 2 ^ (w - 1) = P at *
  rw [h2]
  by_cases h0 : t = 0
  · subst h0
    have : 2 * P - 1 - 0 + 1 = 2 * P := by omega
    rw [this, Nat.mod_self]
    simp [hP]
  · have e : 2 * P - 1 - t + 1 = 2 * P - t := by omega
    rw [e, Nat.mod_eq_of_lt (by omega)]
    have : ¬ (2 * P - t < P) := by omega
    simp only [this, if_false]
    omega

theorem convertNegative_spec {w : Nat} (hw : 1 ≤ w) (ds : List UInt8) (hd : AllDigits ds) :
    convertNegative w ds = if value ds ≤ 2 ^ (w - 1) then .ok (-(value ds : Int)) else .overflow := by
  have hP := Nat.pow_pos (n := w - 1) (show 0 < 2 by decide)
  have hm : smaxW w + 1 ≤ umaxW w := by
    rw [smaxW_succ]; unfold umaxW; rw [two_pow_pred hw]; omega
  unfold convertNegative
  rw [accDigits_spec hm ds 0 (Nat.zero_le _) hd, smaxW_succ]
  simp only [Nat.zero_mul, Nat.zero_add]
  by_cases h : value ds ≤ 2 ^ (w - 1)
  · simp only [h, if_true]
    rw [negate_exact hw h]
  · simp [h]

theorem smaxW_le_self (w : Nat) : smaxW w ≤ smaxW w := Nat.le_refl _

theorem convertSigned_spec {w : Nat} (hw : 1 ≤ w) (s : List UInt8)
    (hs : match s with
          | [] => False
          | c :: rest => if c = 45 ∨ c = 43 then AllDigits rest else AllDigits s) :
    convertSigned w s =
      if Numeral.smin w ≤ signedValue s ∧ signedValue s ≤ (Numeral.smax w : Int)
      then .ok (signedValue s) else .overflow := by
  have hP := Nat.pow_pos (n := w - 1) (show 0 < 2 by decide)
  cases s with
  | nil => exact absurd hs (by simp)
  | cons c rest =>
    simp only at hs
    unfold convertSigned signedValue Numeral.smin Numeral.smax
    by_cases h45 : c = 45
    · subst h45
      simp only [true_or, if_true] at hs
      simp only [beq_self_eq_true, if_true]
      rw [convertNegative_spec hw rest hs]
      by_cases h : value rest ≤ 2 ^ (w - 1)
      · have : (-((2 ^ (w - 1) : Nat) : Int) ≤ -(value rest : Int)) ∧ -(value rest : Int) ≤ ((2 ^ (w - 1) - 1 : Nat) : Int) := by omega
        rw [if_pos h, if_pos this]
      · have : ¬ ((-((2 ^ (w - 1) : Nat) : Int) ≤ -(value rest : Int)) ∧ -(value rest : Int) ≤ ((2 ^ (w - 1) - 1 : Nat) : Int)) := by omega
        rw [if_neg h, if_neg this]
    · have hb : (c == 45) = false := by simp [h45]
      simp only [hb, h45, if_false, Bool.false_eq_true]
      by_cases h43 : c = 43
      · subst h43
        simp only [or_true, if_true] at hs
        simp only [beq_self_eq_true, if_true]
        rw [convertPositive_spec (Nat.le_refl _) rest hs]
        unfold smaxW
        by_cases h : value rest ≤ 2 ^ (w - 1) - 1
        · have : (-((2 ^ (w - 1) : Nat) : Int) ≤ (value rest : Int)) ∧ (value rest : Int) ≤ ((2 ^ (w - 1) - 1 : Nat) : Int) := by omega
          rw [if_pos h, if_pos this]; rfl
        · have : ¬ ((-((2 ^ (w - 1) : Nat) : Int) ≤ (value rest : Int)) ∧ (value rest : Int) ≤ ((2 ^ (w - 1) - 1 : Nat) : Int)) := by omega
          rw [if_neg h, if_neg this]; rfl
      · have hb' : (c == 43) = false := by simp [h43]
        simp only [h45, h43, or_self, if_false] at hs
        simp only [hb', h43, if_false, Bool.false_eq_true]
        rw [convertPositive_spec (Nat.le_refl _) (c :: rest) hs]
        unfold smaxW
        by_cases h : value (c :: rest) ≤ 2 ^ (w - 1) - 1
        · have : (-((2 ^ (w - 1) : Nat) : Int) ≤ (value (c :: rest) : Int)) ∧ (value (c :: rest) : Int) ≤ ((2 ^ (w - 1) - 1 : Nat) : Int) := by omega
          rw [if_pos h, if_pos this]; rfl
        · have : ¬ ((-((2 ^ (w - 1) : Nat) : Int) ≤ (value (c :: rest) : Int)) ∧ (value (c :: rest) : Int) ≤ ((2 ^ (w - 1) - 1 : Nat) : Int)) := by omega
          rw [if_neg h, if_neg this]; rfl

/-! ### the input window -/

/-- The input after consuming `n` bytes. -/
def adv (i : Inp) (n : Nat) : Inp := ⟨i.pos + n, i.rest.drop n⟩

@[simp] theorem adv_zero (i : Inp) : adv i 0 = i := by simp [adv]

theorem adv_adv (i : Inp) (a b : Nat) : adv (adv i a) b = adv i (a + b) := by
  simp [adv, List.drop_drop, Nat.add_assoc]

theorem bump_of_le {i : Inp} {n : Nat} (h : n ≤ i.rest.length) : i.bump n = some (adv i n) := by
  simp [Inp.bump, adv, h]

theorem bumpOk_of_le {i : Inp} {n : Nat} (st : Int) (h : n ≤ i.rest.length) :
    bumpOk i n st = .ok (adv i n) st := by
  simp [bumpOk, bump_of_le h]

theorem digitRun_cons (c : UInt8) (cs : List UInt8) :
    digitRun (c :: cs) = if isDigit c = true then c :: digitRun cs else [] := by
  rw [isDigit_eq_spec]; simp [digitRun, List.takeWhile_cons]

theorem digitRun_allDigits (bs : List UInt8) : AllDigits (digitRun bs) := by
  induction bs with
  | nil => intro c hc; simp [digitRun] at hc
  | cons b bs ih =>
    intro c hc
    unfold digitRun at hc ih
    rw [List.takeWhile_cons] at hc
    by_cases hb : Numeral.isDigit b = true
    · simp only [hb, if_true, List.mem_cons] at hc
      rcases hc with rfl | hc
      · exact hb
      · exact ih c hc
    · simp [hb] at hc

theorem take_digitRun (bs : List UInt8) : bs.take (digitRun bs).length = digitRun bs := by
  induction bs with
  | nil => simp [digitRun]
  | cons c cs ih =>
    rw [digitRun_cons]
    by_cases h : isDigit c = true
    · simp [h, ih]
    · simp [h]

/-! ### the loops -/

theorem digitLoop_spec : ∀ (n : Nat) (i : Inp), i.rest.length < n →
    digitLoop n i = .ok (adv i (digitRun i.rest).length) 0 := by
  intro n
  induction n with
  | zero => intro i h; omega
  | succ n ih =>
    intro i h
    obtain ⟨p, rest⟩ := i
    cases rest with
    | nil => simp [digitLoop, Inp.empty, digitRun]
    | cons c cs =>
      simp only [digitLoop, Inp.empty, Inp.peek, List.isEmpty_cons, Bool.not_false, if_true,
        List.getElem?_cons_zero, digitRun_cons]
      by_cases hc : isDigit c = true
      · have hb : Inp.bump ⟨p, c :: cs⟩ 1 = some ⟨p + 1, cs⟩ := by simp [Inp.bump]
        simp only [hc, if_true, hb]
        rw [ih ⟨p + 1, cs⟩ (by simpa using h)]
        simp [adv, Nat.add_assoc, Nat.add_comm 1]
      · simp [hc]

/-! ### the documented syntax, case by case -/

theorem isDigit_48 : isDigit 48 = true := by decide
theorem digitVal_48 : digitVal 48 = 0 := by decide

theorem unsignedLen_nil : unsignedLen [] = none := by simp [unsignedLen, digitRun, Canonical]

theorem unsignedLen_nondigit {c : UInt8} (cs : List UInt8) (h : ¬ isDigit c = true) :
    unsignedLen (c :: cs) = none := by
  simp [unsignedLen, digitRun_cons, h, Canonical]

theorem unsignedLen_zero (cs : List UInt8) :
    unsignedLen (48 :: cs) =
      match cs with
      | [] => some 1
      | c1 :: _ => if isDigit c1 = true then none else some 1 := by
  cases cs with
  | nil =>
    have : digitRun ([] : List UInt8) = [] := rfl
    simp [unsignedLen, digitRun_cons, isDigit_48, this, Canonical]
  | cons c1 cs' =>
    by_cases h : isDigit c1 = true
    · simp [unsignedLen, digitRun_cons, isDigit_48, h, Canonical]
    · simp [unsignedLen, digitRun_cons, isDigit_48, h, Canonical]

theorem unsignedLen_nonzero {c : UInt8} (cs : List UInt8) (h : isDigit c = true) (h0 : c ≠ 48) :
    unsignedLen (c :: cs) = some ((digitRun cs).length + 1) := by
  simp [unsignedLen, digitRun_cons, h, Canonical, h0]

theorem afterZero_spec (p : Nat) (cs : List UInt8) :
    afterZero ⟨p, 48 :: cs⟩ =
      match unsignedLen (48 :: cs) with
      | some n => .ok (adv ⟨p, 48 :: cs⟩ n) 0
      | none => .fail ⟨p, 48 :: cs⟩ := by
  rw [unsignedLen_zero]
  cases cs with
  | nil => simp [afterZero, Inp.size, bumpOk, Inp.bump, adv]
  | cons c1 cs' =>
    have hsz : ¬ (cs'.length + 1 + 1 < 2) := by omega
    by_cases h : isDigit c1 = true
    · simp [afterZero, Inp.size, Inp.peek, h, hsz]
    · simp [afterZero, Inp.size, Inp.peek, h, hsz, bumpOk, Inp.bump, adv]

/-- `match_unsigned` accepts exactly the documented syntax, consumes exactly the match, and
    leaves the input untouched on failure. -/
theorem matchUnsigned_spec (i : Inp) :
    matchUnsigned i =
      match unsignedLen i.rest with
      | some n => .ok (adv i n) 0
      | none => .fail i := by
  obtain ⟨p, rest⟩ := i
  cases rest with
  | nil => simp [matchUnsigned, Inp.empty, unsignedLen_nil]
  | cons c cs =>
    by_cases hc : isDigit c = true
    · by_cases h0 : c = 48
      · subst h0
        simp only [matchUnsigned, Inp.empty, Inp.peek, List.isEmpty_cons, Bool.not_false, if_true,
          List.getElem?_cons_zero, hc, beq_self_eq_true]
        exact afterZero_spec p cs
      · have hb : (c == 48) = false := by simp [h0]
        have hbump : Inp.bump ⟨p, c :: cs⟩ 1 = some ⟨p + 1, cs⟩ := by simp [Inp.bump]
        simp only [matchUnsigned, Inp.empty, Inp.peek, List.isEmpty_cons, Bool.not_false, if_true,
          List.getElem?_cons_zero, hc, hb, Bool.false_eq_true, if_false, hbump,
          unsignedLen_nonzero cs hc h0]
        rw [digitLoop_spec _ _ (by simp [Inp.size])]
        simp [adv, Nat.add_assoc, Nat.add_comm 1]
    · simp [matchUnsigned, Inp.empty, Inp.peek, hc, unsignedLen_nondigit cs hc]

/-! ### match_and_convert_unsigned_with_maximum_nothrow -/

theorem drop_facts {l : List UInt8} {b : Nat} {c : UInt8} {cs : List UInt8} (h : l.drop b = c :: cs) :
    l.length = b + 1 + cs.length ∧ l[b + 1]? = cs[0]? ∧ l.drop (b + 1) = cs := by
  refine ⟨?_, ?_, ?_⟩
  · have := congrArg List.length h
    simp only [List.length_drop, List.length_cons] at this
    omega
  · have := List.getElem?_drop (xs := l) (i := b) (j := 1)
    rw [h] at this
    simpa using this.symm
  · have : (l.drop b).drop 1 = l.drop (b + 1) := by rw [List.drop_drop]
    rw [← this, h]; rfl

theorem nothrowLoop_spec {tmax max : Nat} (hm : max ≤ tmax) (i : Inp) :
    ∀ (n b st : Nat) (c : UInt8) (cs : List UInt8),
      i.rest.drop b = c :: cs → isDigit c = true → st ≤ max → cs.length < n →
      nothrowLoop tmax max i n b st c =
        if st * 10 ^ ((digitRun cs).length + 1) + value (c :: digitRun cs) ≤ max
        then .ok (adv i (b + ((digitRun cs).length + 1)))
              ((st * 10 ^ ((digitRun cs).length + 1) + value (c :: digitRun cs) : Nat) : Int)
        else .fail i := by
  intro n
  induction n with
  | zero => intro b st c cs _ _ _ h; omega
  | succ n ih =>
    intro b st c cs hdrop hc hst hn
    obtain ⟨hlen, hpeek, hnext⟩ := drop_facts hdrop
    rw [nothrowLoop, accDigit_spec hm (digitVal_le hc), value_cons, horner]
    by_cases hx : st * 10 + (c.toNat - 48) ≤ max
    · simp only [hx, if_true]
      cases cs with
      | nil =>
        have hsz : ¬ (i.size > b + 1) := by simp only [Inp.size]; simp at hlen; omega
        have : digitRun ([] : List UInt8) = [] := rfl
        simp only [hsz, if_false, this, List.length_nil, value, Nat.pow_zero, Nat.mul_one, Nat.add_zero]
        rw [bumpOk_of_le _ (by omega)]
        simp [hx]
      | cons c' cs' =>
        have hsz : i.size > b + 1 := by simp only [Inp.size]; simp at hlen; omega
        have hpk : i.peek (b + 1) = some c' := by simpa [Inp.peek] using hpeek
        simp only [hsz, if_true, hpk, digitRun_cons]
        by_cases hc' : isDigit c' = true
        · simp only [hc', if_true]
          rw [ih (b + 1) _ c' cs' hnext hc' hx (by simpa using hn)]
          have e : b + 1 + ((digitRun cs').length + 1) = b + ((c' :: digitRun cs').length + 1) := by
            simp only [List.length_cons]; omega
          rw [e]
          simp only [List.length_cons]
        · simp only [hc']
          rw [bumpOk_of_le _ (by omega)]
          simp [value, hx]
    · have := le_horner (st * 10 + (c.toNat - 48)) (digitRun cs).length (value (digitRun cs))
      have h' : ¬ ((st * 10 + (c.toNat - 48)) * 10 ^ (digitRun cs).length + value (digitRun cs) ≤ max) := by
        omega
      simp [hx, h']

theorem matchConvNothrow_spec {tmax max : Nat} (hm : max ≤ tmax) (i : Inp) :
    matchConvNothrow tmax max i =
      if Canonical (digitRun i.rest) ∧ value (digitRun i.rest) ≤ max
      then .ok (adv i (digitRun i.rest).length) (value (digitRun i.rest) : Nat)
      else .fail i := by
  obtain ⟨p, rest⟩ := i
  cases rest with
  | nil =>
    have : digitRun ([] : List UInt8) = [] := rfl
    simp [matchConvNothrow, Inp.empty, this, Canonical]
  | cons c cs =>
    by_cases h0 : c = 48
    · subst h0
      simp only [matchConvNothrow, Inp.empty, Inp.peek, List.isEmpty_cons, Bool.not_false, if_true,
        List.getElem?_cons_zero, beq_self_eq_true]
      rw [afterZero_spec, unsignedLen_zero]
      cases cs with
      | nil =>
        have : digitRun ([] : List UInt8) = [] := rfl
        simp [digitRun_cons, isDigit_48, this, Canonical, value, digitVal_48]
      | cons c1 cs' =>
        by_cases h : isDigit c1 = true
        · simp [digitRun_cons, isDigit_48, h, Canonical]
        · simp [digitRun_cons, isDigit_48, h, Canonical, value, digitVal_48]
    · have hb : (c == 48) = false := by simp [h0]
      by_cases hc : isDigit c = true
      · simp only [matchConvNothrow, Inp.empty, Inp.peek, List.isEmpty_cons, Bool.not_false, if_true,
          List.getElem?_cons_zero, hb, Bool.false_eq_true, if_false, hc, digitRun_cons]
        rw [nothrowLoop_spec hm _ _ 0 0 c cs (by simp) hc (Nat.zero_le _) (by simp only [Inp.size, List.length_cons]; omega)]
        have hcan : Canonical (c :: digitRun cs) := by simp [Canonical, h0]
        simp [hcan]
      · simp [matchConvNothrow, Inp.empty, Inp.peek, hb, hc, digitRun_cons, Canonical]

/-! ### match_and_convert_unsigned_with_maximum_throws -/

theorem throwsLoop_spec {tmax max : Nat} (hm : max ≤ tmax) :
    ∀ (n : Nat) (i : Inp) (st : Nat) (c : UInt8) (cs : List UInt8),
      i.rest = c :: cs → isDigit c = true → st ≤ max → cs.length < n →
      (st * 10 ^ ((digitRun cs).length + 1) + value (c :: digitRun cs) ≤ max →
        throwsLoop tmax max n i st c =
          .ok (adv i ((digitRun cs).length + 1))
            ((st * 10 ^ ((digitRun cs).length + 1) + value (c :: digitRun cs) : Nat) : Int)) ∧
      (¬ st * 10 ^ ((digitRun cs).length + 1) + value (c :: digitRun cs) ≤ max →
        ∃ k, k < (digitRun cs).length + 1 ∧
          throwsLoop tmax max n i st c = .thr (adv i k) (i.pos + k)) := by
  intro n
  induction n with
  | zero => intro i st c cs _ _ _ h; omega
  | succ n ih =>
    intro i st c cs hrest hc hst hn
    obtain ⟨p, rest⟩ := i
    simp only at hrest
    subst hrest
    rw [throwsLoop, accDigit_spec hm (digitVal_le hc), value_cons, horner]
    by_cases hx : st * 10 + (c.toNat - 48) ≤ max
    · have hb : Inp.bump ⟨p, c :: cs⟩ 1 = some ⟨p + 1, cs⟩ := by simp [Inp.bump]
      simp only [hx, if_true, hb]
      cases cs with
      | nil =>
        have : digitRun ([] : List UInt8) = [] := rfl
        simp [Inp.empty, this, value, adv, hx]
      | cons c' cs' =>
        simp only [Inp.empty, Inp.peek, List.isEmpty_cons, Bool.not_false, if_true,
          List.getElem?_cons_zero, digitRun_cons]
        by_cases hc' : isDigit c' = true
        · simp only [hc', if_true, List.length_cons]
          obtain ⟨h1, h2⟩ := ih ⟨p + 1, c' :: cs'⟩ _ c' cs' rfl hc' hx (by simpa using hn)
          constructor
          · intro hle
            rw [h1 hle]
            simp [adv, Nat.add_assoc, Nat.add_comm 1]
          · intro hgt
            obtain ⟨k, hk, he⟩ := h2 hgt
            refine ⟨k + 1, by omega, ?_⟩
            rw [he]
            simp [adv, Nat.add_assoc, Nat.add_comm 1]
        · simp [hc', value, adv, hx]
    · have := le_horner (st * 10 + (c.toNat - 48)) (digitRun cs).length (value (digitRun cs))
      have h' : ¬ ((st * 10 + (c.toNat - 48)) * 10 ^ (digitRun cs).length + value (digitRun cs) ≤ max) := by
        omega
      simp only [hx, if_false]
      exact ⟨fun h => absurd h h', fun _ => ⟨0, by omega, by simp⟩⟩

/-- `match_and_convert_unsigned_with_maximum_throws`: local failure exactly when the documented
    syntax does not match (input untouched); otherwise the exact value, or the exception. -/
theorem matchConvThrows_spec {tmax max : Nat} (hm : max ≤ tmax) (i : Inp) :
    (¬ Canonical (digitRun i.rest) → matchConvThrows tmax max i = .fail i) ∧
    (Canonical (digitRun i.rest) → value (digitRun i.rest) ≤ max →
      matchConvThrows tmax max i = .ok (adv i (digitRun i.rest).length) (value (digitRun i.rest) : Nat)) ∧
    (Canonical (digitRun i.rest) → ¬ value (digitRun i.rest) ≤ max →
      ∃ k, k < (digitRun i.rest).length ∧ matchConvThrows tmax max i = .thr (adv i k) (i.pos + k)) := by
  obtain ⟨p, rest⟩ := i
  cases rest with
  | nil =>
    have : digitRun ([] : List UInt8) = [] := rfl
    simp [matchConvThrows, Inp.empty, this, Canonical]
  | cons c cs =>
    by_cases hc : isDigit c = true
    · by_cases h0 : c = 48
      · subst h0
        simp only [matchConvThrows, Inp.empty, Inp.peek, List.isEmpty_cons, Bool.not_false, if_true,
          List.getElem?_cons_zero, beq_self_eq_true, hc]
        rw [afterZero_spec, unsignedLen_zero]
        cases cs with
        | nil =>
          have : digitRun ([] : List UInt8) = [] := rfl
          simp [digitRun_cons, isDigit_48, this, Canonical, value, digitVal_48]
        | cons c1 cs' =>
          by_cases h : isDigit c1 = true
          · simp [digitRun_cons, isDigit_48, h, Canonical]
          · simp [digitRun_cons, isDigit_48, h, Canonical, value, digitVal_48]
      · have hb : (c == 48) = false := by simp [h0]
        simp only [matchConvThrows, Inp.empty, Inp.peek, List.isEmpty_cons, Bool.not_false, if_true,
          List.getElem?_cons_zero, hb, Bool.false_eq_true, if_false, hc, digitRun_cons]
        have hcan : Canonical (c :: digitRun cs) := by simp [Canonical, h0]
        obtain ⟨h1, h2⟩ := throwsLoop_spec hm (Inp.size ⟨p, c :: cs⟩ + 1) ⟨p, c :: cs⟩ 0 c cs rfl hc
          (Nat.zero_le _) (by simp only [Inp.size, List.length_cons]; omega)
        simp only [Nat.zero_mul, Nat.zero_add] at h1 h2
        refine ⟨fun h => absurd hcan h, fun _ hle => ?_, fun _ hgt => ?_⟩
        · rw [h1 hle]; simp
        · obtain ⟨k, hk, he⟩ := h2 hgt
          exact ⟨k, by simpa using hk, he⟩
    · simp [matchConvThrows, Inp.empty, Inp.peek, hc, digitRun_cons, Canonical]

/-! ### the rules run by the generic machinery -/

theorem oneOf_nil (test : UInt8 → Bool) (p : Nat) : oneOf test ⟨p, []⟩ = .fail ⟨p, []⟩ := by
  simp [oneOf, Inp.empty]

theorem oneOf_cons (test : UInt8 → Bool) (p : Nat) (c : UInt8) (cs : List UInt8) :
    oneOf test ⟨p, c :: cs⟩ = if test c = true then .ok ⟨p + 1, cs⟩ 0 else .fail ⟨p, c :: cs⟩ := by
  by_cases h : test c = true <;> simp [oneOf, Inp.empty, Inp.peek, h, bumpOk, Inp.bump]

/-- The generic-machinery run of `unsigned_rule_new` is the documented syntax. -/
theorem unsignedRuleNew_spec (i : Inp) :
    unsignedRuleNew i =
      match unsignedLen i.rest with
      | some n => .ok (adv i n) 0
      | none => .fail i := by
  obtain ⟨p, rest⟩ := i
  cases rest with
  | nil => simp [unsignedRuleNew, oneOf_nil, unsignedLen_nil]
  | cons c cs =>
    by_cases h0 : c = 48
    · subst h0
      simp only [unsignedRuleNew, oneOf_cons, beq_self_eq_true, if_true, unsignedLen_zero]
      cases cs with
      | nil => simp [oneOf_nil, adv]
      | cons c1 cs' =>
        by_cases h : isDigit c1 = true
        · simp [oneOf_cons, h]
        · simp [oneOf_cons, h, adv]
    · have hb : (c == 48) = false := by simp [h0]
      by_cases hc : isDigit c = true
      · simp only [unsignedRuleNew, oneOf_cons, hb, Bool.false_eq_true, if_false, hc, if_true,
          unsignedLen_nonzero cs hc h0]
        rw [digitLoop_spec _ _ (by simp [Inp.size])]
        simp [adv, Nat.add_assoc, Nat.add_comm 1]
      · simp [unsignedRuleNew, oneOf_cons, hb, hc, unsignedLen_nondigit cs hc]

/-- `parse< signed_rule_new >` is the documented syntax; on failure the input is back at the start. -/
theorem signedRuleNew_spec (i : Inp) :
    signedRuleNew i =
      match signedLen i.rest with
      | some n => .ok (adv i n) 0
      | none => .fail i := by
  obtain ⟨p, rest⟩ := i
  cases rest with
  | nil => simp [signedRuleNew, optSign, oneOf_nil, unsignedRuleNew_spec, unsignedLen_nil, signedLen]
  | cons c cs =>
    by_cases hs : (c == 45 || c == 43) = true
    · have hs' : Numeral.isSign c = true := hs
      simp only [signedRuleNew, optSign, oneOf_cons, hs, if_true, unsignedRuleNew_spec, signedLen, hs']
      cases h : unsignedLen cs with
      | none => simp
      | some n => simp [adv, Nat.add_assoc, Nat.add_comm 1]
    · have hs' : ¬ Numeral.isSign c = true := hs
      simp only [signedRuleNew, optSign, oneOf_cons, hs, unsignedRuleNew_spec, signedLen, hs']
      cases h : unsignedLen (c :: cs) with
      | none => simp [h]
      | some n => simp [h]

/-! ### rules with an attached converting action -/

theorem matched_adv (i : Inp) (n : Nat) : matched i (adv i n) = i.rest.take n := by
  simp [matched, adv]

theorem withAction_spec (rule : Inp → Res) (act : List UInt8 → Conv) (len : List UInt8 → Option Nat)
    (i : Inp)
    (hr : rule i = match len i.rest with
                   | some n => .ok (adv i n) 0
                   | none => .fail i) :
    withAction rule act i =
      match len i.rest with
      | none => .fail i
      | some n =>
        match act (i.rest.take n) with
        | .ok v => .ok (adv i n) v
        | .overflow => .thr i i.pos
        | .bad => .bad := by
  unfold withAction
  rw [hr]
  cases len i.rest with
  | none => rfl
  | some n => simp only [matched_adv]; rfl

theorem unsignedLen_some {bs : List UInt8} {n : Nat} (h : unsignedLen bs = some n) :
    Canonical (digitRun bs) ∧ n = (digitRun bs).length := by
  unfold unsignedLen at h
  by_cases hc : Canonical (digitRun bs)
  · simp only [hc, if_true, Option.some.injEq] at h
    exact ⟨hc, h.symm⟩
  · simp [hc] at h

theorem unsignedLen_take {bs : List UInt8} {n : Nat} (h : unsignedLen bs = some n) :
    bs.take n = digitRun bs := by
  rw [(unsignedLen_some h).2, take_digitRun]

theorem isSign_iff (c : UInt8) : Numeral.isSign c = true ↔ (c = 45 ∨ c = 43) := by
  simp [Numeral.isSign]

/-- What `signed_rule_new` matched has the shape `convert_signed` assumes. -/
theorem signedLen_shape {bs : List UInt8} {n : Nat} (h : signedLen bs = some n) :
    match bs.take n with
    | [] => False
    | c :: rest => if c = 45 ∨ c = 43 then AllDigits rest else AllDigits (bs.take n) := by
  cases bs with
  | nil => simp [signedLen] at h
  | cons c cs =>
    unfold signedLen at h
    by_cases hs : Numeral.isSign c = true
    · simp only [hs, if_true, Option.map_eq_some_iff] at h
      obtain ⟨m, hm, rfl⟩ := h
      have hs' := (isSign_iff c).1 hs
      simp only [List.take_succ_cons, hs', if_true, unsignedLen_take hm]
      exact digitRun_allDigits cs
    · simp only [hs, Bool.false_eq_true, if_false] at h
      have hs' : ¬ (c = 45 ∨ c = 43) := fun x => hs ((isSign_iff c).2 x)
      have hcan := (unsignedLen_some h).1
      have ht := unsignedLen_take h
      rw [ht]
      rw [digitRun_cons] at hcan ⊢
      by_cases hc : isDigit c = true
      · simp only [hc, if_true, hs', if_false]
        have := digitRun_allDigits (c :: cs)
        rwa [digitRun_cons, if_pos hc] at this
      · simp [hc, Canonical] at hcan

/-! ### the documented grammars in the PEG formalism (Spec/Peg.lean) -/

/-- The window `[p, endp)` of a byte array, as a list. -/
def win (inp : Array UInt8) (endp p : Nat) : List UInt8 := (inp.toList.drop p).take (endp - p)

theorem win_nil {inp : Array UInt8} {endp p : Nat} (h : ¬ p < endp) : win inp endp p = [] := by
  have : endp - p = 0 := by omega
  simp [win, this]

theorem win_cons {inp : Array UInt8} {endp p : Nat} (h : p < endp) (he : endp ≤ inp.size) :
    win inp endp p = inp.getD p 0 :: win inp endp (p + 1) := by
  have hp : p < inp.toList.length := by simp; omega
  have e : endp - p = (endp - (p + 1)) + 1 := by omega
  unfold win
  rw [List.drop_eq_getElem_cons hp, e, List.take_succ_cons]
  have : inp.getD p 0 = inp.toList[p] := by
    simp [Array.getD, show p < inp.size by omega]
  rw [this]

/-! PEG expressions of the documented grammars (integer.hpp) with `if_then_else` expanded as
    documented in doc/Rule-Reference.md: `sor< seq< R, S >, seq< not_at< R >, T > >`. -/
def zeroE : PExp := .atom (.one true [48])
def digitE : PExp := .atom (.range true 48 57)
def signE : PExp := .atom (.one true [45, 43])
/-- `unsigned_rule_new : if_then_else< one< '0' >, not_at< digit >, plus< digit > >`. -/
def unsignedNewE : PExp := .alt (.seq zeroE (.not_ digitE)) (.seq (.not_ zeroE) digitE.plus)
/-- `signed_rule_new : seq< opt< one< '-', '+' > >, if_then_else< … > >`. -/
def signedNewE : PExp := .seq signE.opt unsignedNewE

section
variable (G : Nat → Option PExp) (eol : Eol) (inp : Array UInt8) (endp : Nat)

theorem sem_digit (p : Nat) :
    Sem G eol inp endp digitE p
      (if p < endp ∧ isDigit (inp.getD p 0) = true then .ok (p + 1) else .fail) := by
  by_cases h : p < endp ∧ isDigit (inp.getD p 0) = true
  · rw [if_pos h]
    apply Sem.atomOk
    obtain ⟨hp, hc⟩ := h
    simp only [atomSem]
    generalize inp.getD p 0 = c at *
    have h2 := (isDigit_iff c).1 hc
    simp [hp, UInt8.le_iff_toNat_le, h2]
  · rw [if_neg h]
    apply Sem.atomFail
    simp only [atomSem]
    rw [if_neg]
    intro hh
    apply h
    refine ⟨hh.1, ?_⟩
    have h2 := hh.2
    generalize inp.getD p 0 = c at *
    exact (isDigit_iff c).2 (by simpa [UInt8.le_iff_toNat_le] using h2)

theorem sem_one (cs : List UInt8) (p : Nat) :
    Sem G eol inp endp (.atom (.one true cs)) p
      (if p < endp ∧ cs.contains (inp.getD p 0) = true then .ok (p + 1) else .fail) := by
  by_cases h : p < endp ∧ cs.contains (inp.getD p 0) = true
  · rw [if_pos h]; apply Sem.atomOk; simp only [atomSem]; rw [if_pos h]
  · rw [if_neg h]; apply Sem.atomFail; simp only [atomSem]; rw [if_neg h]

theorem sem_star_digit (he : endp ≤ inp.size) :
    ∀ (k p : Nat), endp - p ≤ k →
      Sem G eol inp endp (.star digitE) p (.ok (p + (digitRun (win inp endp p)).length)) := by
  intro k
  induction k with
  | zero =>
    intro p hk
    have hp : ¬ p < endp := by omega
    have := sem_digit G eol inp endp p
    rw [if_neg (fun h => hp h.1)] at this
    rw [win_nil hp]
    exact Sem.starDone this
  | succ k ih =>
    intro p hk
    have hd := sem_digit G eol inp endp p
    by_cases hp : p < endp
    · rw [win_cons hp he, digitRun_cons]
      by_cases hc : isDigit (inp.getD p 0) = true
      · rw [if_pos ⟨hp, hc⟩] at hd
        rw [if_pos hc]
        have := ih (p + 1) (by omega)
        have e : p + (inp.getD p 0 :: digitRun (win inp endp (p + 1))).length
            = p + 1 + (digitRun (win inp endp (p + 1))).length := by simp only [List.length_cons]; omega
        rw [e]
        exact Sem.starStep hd this
      · rw [if_neg (fun h => hc h.2)] at hd
        rw [if_neg hc]
        exact Sem.starDone hd
    · rw [if_neg (fun h => hp h.1)] at hd
      rw [win_nil hp]
      exact Sem.starDone hd

/-- The PEG formalism assigns `unsigned_rule_new` exactly the outcome of `unsignedLen`. -/
theorem sem_unsignedNew (he : endp ≤ inp.size) (p : Nat) :
    Sem G eol inp endp unsignedNewE p
      (match unsignedLen (win inp endp p) with
       | some n => .ok (p + n)
       | none => .fail) := by
  have hz := sem_one G eol inp endp [48] p
  have hd := sem_digit G eol inp endp p
  by_cases hp : p < endp
  · rw [win_cons hp he]
    by_cases h0 : inp.getD p 0 = 48
    · -- leading '0'
      have hz' : Sem G eol inp endp zeroE p (.ok (p + 1)) := by
        rw [if_pos ⟨hp, by rw [h0]; rfl⟩] at hz; exact hz
      have hd1 := sem_digit G eol inp endp (p + 1)
      rw [h0, unsignedLen_zero]
      by_cases hp1 : p + 1 < endp
      · rw [win_cons hp1 he]
        simp only
        by_cases hc1 : isDigit (inp.getD (p + 1) 0) = true
        · rw [if_pos ⟨hp1, hc1⟩] at hd1
          rw [if_pos hc1]
          exact Sem.altFail (Sem.seqOk hz' (Sem.notOk hd1)) (Sem.seqFail (Sem.notOk hz'))
        · rw [if_neg (fun h => hc1 h.2)] at hd1
          rw [if_neg hc1]
          exact Sem.altOk (Sem.seqOk hz' (Sem.notFail hd1))
      · rw [if_neg (fun h => hp1 h.1)] at hd1
        rw [win_nil hp1]
        exact Sem.altOk (Sem.seqOk hz' (Sem.notFail hd1))
    · -- not '0'
      have hz' : Sem G eol inp endp zeroE p .fail := by
        rw [if_neg] at hz
        · exact hz
        · intro h
          have h2 := h.2
          generalize inp.getD p 0 = c at *
          exact h0 (by simpa using h2)
      by_cases hc : isDigit (inp.getD p 0) = true
      · rw [if_pos ⟨hp, hc⟩] at hd
        rw [unsignedLen_nonzero _ hc h0]
        have hs := sem_star_digit G eol inp endp he (endp - (p + 1)) (p + 1) (Nat.le_refl _)
        have e : p + ((digitRun (win inp endp (p + 1))).length + 1)
            = p + 1 + (digitRun (win inp endp (p + 1))).length := by omega
        simp only
        rw [e]
        exact Sem.altFail (Sem.seqFail hz') (Sem.seqOk (Sem.notFail hz') (Sem.seqOk hd hs))
      · rw [if_neg (fun h => hc h.2)] at hd
        rw [unsignedLen_nondigit _ hc]
        exact Sem.altFail (Sem.seqFail hz') (Sem.seqOk (Sem.notFail hz') (Sem.seqFail hd))
  · rw [if_neg (fun h => hp h.1)] at hz hd
    rw [win_nil hp, unsignedLen_nil]
    exact Sem.altFail (Sem.seqFail hz) (Sem.seqOk (Sem.notFail hz) (Sem.seqFail hd))

/-- … and `signed_rule_new` exactly the outcome of `signedLen`. -/
theorem sem_signedNew (he : endp ≤ inp.size) (p : Nat) :
    Sem G eol inp endp signedNewE p
      (match signedLen (win inp endp p) with
       | some n => .ok (p + n)
       | none => .fail) := by
  have hs := sem_one G eol inp endp [45, 43] p
  by_cases hp : p < endp
  · have hw := win_cons hp he
    by_cases hsg : Numeral.isSign (inp.getD p 0) = true
    · have hcont : ([45, 43] : List UInt8).contains (inp.getD p 0) = true := by
        generalize inp.getD p 0 = c at *
        rcases (isSign_iff c).1 hsg with h | h <;> simp [h]
      rw [if_pos ⟨hp, hcont⟩] at hs
      have hu := sem_unsignedNew G eol inp endp he (p + 1)
      rw [hw]
      simp only [signedLen, hsg, if_true]
      cases h : unsignedLen (win inp endp (p + 1)) with
      | none =>
        rw [h] at hu
        exact Sem.seqOk (Sem.altOk hs) hu
      | some n =>
        rw [h] at hu
        simp only [Option.map_some] at *
        have e : p + (n + 1) = p + 1 + n := by omega
        rw [e]
        exact Sem.seqOk (Sem.altOk hs) hu
    · have hcont : ¬ ([45, 43] : List UInt8).contains (inp.getD p 0) = true := by
        intro h
        apply hsg
        generalize inp.getD p 0 = c at *
        apply (isSign_iff c).2
        simpa using h
      rw [if_neg (fun h => hcont h.2)] at hs
      have hu := sem_unsignedNew G eol inp endp he p
      have : signedLen (win inp endp p) = unsignedLen (win inp endp p) := by
        rw [hw]; simp only [signedLen]; rw [if_neg hsg]
      rw [this]
      exact Sem.seqOk (Sem.altFail hs Sem.eps) hu
  · rw [if_neg (fun h => hp h.1)] at hs
    have hu := sem_unsignedNew G eol inp endp he p
    rw [win_nil hp] at hu ⊢
    simp only [signedLen]
    rw [unsignedLen_nil] at hu
    exact Sem.seqOk (Sem.altFail hs Sem.eps) hu
end


/-! ### vocabulary for the statements of Props/C15.lean -/

/-- "Exact or overflow": the outcome `r` of a converting rule started on `i`, when the documented
    syntax matches `syn` bytes (`none`: no match), the matched numeral has the mathematical value
    `v`, and the target accepts exactly the values in `[lo, hi]`:
    * no match → local failure, input untouched;
    * value in range → success, exactly the matched bytes consumed, exactly `v` stored;
    * value out of range → a `parse_error` is thrown (nothing is reported as stored). -/
def ExactOrOverflow (i : Inp) (syn : Option Nat) (v lo hi : Int) (r : Res) : Prop :=
  match syn with
  | none => r = .fail i
  | some n => if lo ≤ v ∧ v ≤ hi then r = .ok (adv i n) v else ∃ i' p, r = .thr i' p

/-- The outcome stayed inside the window, used defined arithmetic only, terminated, and a local
    failure left the input where it was. -/
def Safe (i : Inp) (r : Res) : Prop :=
  r ≠ .oob ∧ r ≠ .bad ∧ r ≠ .fuel ∧ ∀ i', r = .fail i' → i' = i

theorem Safe.ok (i i' : Inp) (v : Int) : Safe i (.ok i' v) := by simp [Safe]
theorem Safe.fail (i : Inp) : Safe i (.fail i) := by
  refine ⟨by simp, by simp, by simp, ?_⟩
  intro i' h; injection h with h; exact h.symm
theorem Safe.thr (i i' : Inp) (p : Nat) : Safe i (.thr i' p) := by simp [Safe]

theorem ExactOrOverflow.safe {i : Inp} {syn : Option Nat} {v lo hi : Int} {r : Res}
    (h : ExactOrOverflow i syn v lo hi r) : Safe i r := by
  unfold ExactOrOverflow at h
  cases syn with
  | none => simp only at h; rw [h]; exact Safe.fail i
  | some n =>
    simp only at h
    by_cases hr : lo ≤ v ∧ v ≤ hi
    · rw [if_pos hr] at h; rw [h]; exact Safe.ok _ _ _
    · rw [if_neg hr] at h; obtain ⟨i', p, h⟩ := h; rw [h]; exact Safe.thr _ _ _

end Pegtl.Integer
