/-
  Lemmas/SpanTree.lean — the surviving derivation as a rose tree, and "children contained in and ordered
  within their parent" for it.

  `specT` (Lemmas/Tree.lean) yields the parse tree as a pre-order list with depths — the form in which the
  node-builder machine produces it.  Here the same specification is given as trees (`specTreeT`), the two
  are shown equal (`specT_flat`), and for an invocation tree that is well-chained at every successful
  invocation (`wellT`, Lemmas/Span.lean; no rule re-reading input) the trees are nested: below every node the
  children's spans are ordered and lie within the node's span (`nested_of_well`).
-/
import PegtlVerif.Lemmas.Span

namespace Pegtl

inductive TTree
  | mk (n : TNode) (kids : List TTree)
  deriving Repr, Inhabited

def TTree.n : TTree → TNode | .mk n _ => n

mutual
/-- Pre-order with depths (the representation of `Forest`). -/
def flatT : TTree → Forest
  | .mk n ks => mkNode n (flatTs ks)
def flatTs : List TTree → Forest
  | [] => []
  | t :: ts => flatT t ++ flatTs ts
end

/-- `Selector< Rule >::transform` on trees. -/
def transformTree (s : Sel) (n : TNode) (kids : List TTree) : List TTree :=
  match s with
  | .store => [.mk n kids]
  | .removeContent => [.mk { n with content := false } kids]
  | .foldOne => if kids.length = 1 then kids else [.mk { n with content := false } kids]
  | .discardEmpty => if kids.isEmpty then [] else [.mk { n with content := false } kids]

mutual
def specTreeT (cls : Nat → Cls) : Invoc → List TTree
  | .mk i _ _ _ res b e kids =>
    if res ≠ 1 then []
    else match cls i with
      | .sel s => transformTree s ⟨i, b, e, true⟩ (specTreeL cls kids)
      | _ => specTreeL cls kids
def specTreeL (cls : Nat → Cls) : List Invoc → List TTree
  | [] => []
  | t :: ts => specTreeT cls t ++ specTreeL cls ts
end

theorem flatTs_append (a b : List TTree) : flatTs (a ++ b) = flatTs a ++ flatTs b := by
  induction a with
  | nil => rfl
  | cons t ts ih => simp [flatTs, ih]

theorem roots_append (a b : Forest) : (a ++ b).roots = a.roots + b.roots := by
  simp [Forest.roots]

theorem roots_lift (f : Forest) : f.lift.roots = 0 := by
  induction f with
  | nil => rfl
  | cons p ps ih =>
    simp only [Forest.roots, Forest.lift, List.map_cons] at ih ⊢
    rw [List.filter_cons_of_neg (by simp)]
    exact ih

theorem roots_flatTs : ∀ ts : List TTree, (flatTs ts).roots = ts.length
  | [] => rfl
  | .mk n ks :: ts => by
    simp only [flatTs, flatT, mkNode, roots_append, List.length_cons]
    have : Forest.roots ((0, n) :: (flatTs ks).lift) = 1 := by
      have h0 := roots_lift (flatTs ks)
      simp only [Forest.roots] at h0 ⊢
      rw [List.filter_cons_of_pos (by simp)]
      simp [h0]
    rw [this, roots_flatTs ts]; omega

theorem flatTs_isEmpty : ∀ ts : List TTree, (flatTs ts).isEmpty = ts.isEmpty
  | [] => rfl
  | .mk n ks :: ts => by simp [flatTs, flatT, mkNode]

theorem flat_transform (s : Sel) (n : TNode) (ks : List TTree) :
    flatTs (transformTree s n ks) = transformNode s n (flatTs ks) := by
  cases s with
  | store => simp [transformTree, transformNode, flatTs, flatT]
  | removeContent => simp [transformTree, transformNode, flatTs, flatT]
  | foldOne =>
    simp only [transformTree, transformNode, roots_flatTs]
    split <;> simp [flatTs, flatT]
  | discardEmpty =>
    simp only [transformTree, transformNode, flatTs_isEmpty]
    split <;> simp [flatTs, flatT]

mutual
/-- The list form of the specification is the pre-order of the tree form. -/
theorem specT_flat (cls : Nat → Cls) : ∀ t : Invoc, specT cls t = flatTs (specTreeT cls t)
  | .mk i a m kc res b e kids => by
    simp only [specT, specTreeT]
    split
    · rfl
    · cases cls i with
      | sel s => simp only []; rw [flat_transform, specL_flat cls kids]
      | branch => exact specL_flat cls kids
      | leaf => exact specL_flat cls kids
theorem specL_flat (cls : Nat → Cls) : ∀ ts : List Invoc, specL cls ts = flatTs (specTreeL cls ts)
  | [] => rfl
  | t :: ts => by simp only [specL, specTreeL, flatTs_append, specT_flat cls t, specL_flat cls ts]
end

/-! ### nesting -/

/-- The trees of the list are chained from `lo` on; the end of the last one. -/
def chainEndT (lo : Nat) : List TTree → Option Nat
  | [] => some lo
  | t :: ts => if lo ≤ t.n.b.pos ∧ t.n.b.pos ≤ t.n.e.pos then chainEndT t.n.e.pos ts else none

def chainTs (lo : Nat) (ts : List TTree) (hi : Nat) : Bool :=
  match chainEndT lo ts with
  | some e => decide (e ≤ hi)
  | none => false

mutual
/-- Below every node the children are ordered and lie within the node's span. -/
def nestedT : TTree → Bool
  | .mk n ks => chainTs n.b.pos ks n.e.pos && nestedTs ks
def nestedTs : List TTree → Bool
  | [] => true
  | t :: ts => nestedT t && nestedTs ts
end

theorem nestedTs_append (a b : List TTree) : nestedTs (a ++ b) = (nestedTs a && nestedTs b) := by
  induction a with
  | nil => simp [nestedTs]
  | cons t ts ih => simp [nestedTs, ih, Bool.and_assoc]

theorem chainTs_iff {lo hi : Nat} {ts : List TTree} : chainTs lo ts hi = true ↔ ∃ e, chainEndT lo ts = some e ∧ e ≤ hi := by
  unfold chainTs
  cases chainEndT lo ts with
  | none => simp
  | some e => simp

theorem chainEndT_ge : ∀ (ts : List TTree) (lo e : Nat), chainEndT lo ts = some e → lo ≤ e := by
  intro ts
  induction ts with
  | nil => intro lo e h; simp only [chainEndT, Option.some.injEq] at h; omega
  | cons t ts ih =>
    intro lo e h
    simp only [chainEndT] at h
    split at h
    · have := ih _ _ h; omega
    · exact absurd h (by simp)

theorem chainEndT_lower : ∀ (ts : List TTree) (lo lo' e : Nat), lo' ≤ lo → chainEndT lo ts = some e →
    ∃ e', chainEndT lo' ts = some e' ∧ e' ≤ e := by
  intro ts
  cases ts with
  | nil => intro lo lo' e hl h; simp only [chainEndT, Option.some.injEq] at h; exact ⟨lo', rfl, by omega⟩
  | cons t ts =>
    intro lo lo' e hl h
    simp only [chainEndT] at h ⊢
    split at h
    · rename_i hc
      rw [if_pos ⟨by omega, hc.2⟩]
      exact ⟨e, h, Nat.le_refl _⟩
    · exact absurd h (by simp)

theorem chainEndT_append : ∀ (a b : List TTree) (lo : Nat),
    chainEndT lo (a ++ b) = (chainEndT lo a).bind fun e => chainEndT e b := by
  intro a
  induction a with
  | nil => intro b lo; rfl
  | cons t ts ih =>
    intro b lo
    simp only [List.cons_append, chainEndT]
    split
    · exact ih b _
    · rfl

theorem chainTs_append {lo mid hi : Nat} {a b : List TTree} (ha : chainTs lo a mid = true) (hb : chainTs mid b hi = true) :
    chainTs lo (a ++ b) hi = true := by
  rw [chainTs_iff] at ha hb ⊢
  obtain ⟨e1, h1, l1⟩ := ha
  obtain ⟨e2, h2, l2⟩ := hb
  obtain ⟨e2', h2', l2'⟩ := chainEndT_lower b mid e1 e2 l1 h2
  exact ⟨e2', by rw [chainEndT_append, h1]; exact h2', by omega⟩

theorem chainTs_le {lo hi : Nat} {ts : List TTree} (h : chainTs lo ts hi = true) : lo ≤ hi := by
  rw [chainTs_iff] at h
  obtain ⟨e, he, hl⟩ := h
  have := chainEndT_ge ts lo e he
  omega

theorem chainTs_widen {lo lo' hi hi' : Nat} {ts : List TTree} (h : chainTs lo ts hi = true) (hl : lo' ≤ lo) (hh : hi ≤ hi') :
    chainTs lo' ts hi' = true := by
  rw [chainTs_iff] at h ⊢
  obtain ⟨e, he, hle⟩ := h
  obtain ⟨e', he', hle'⟩ := chainEndT_lower ts lo lo' e hl he
  exact ⟨e', he', by omega⟩

theorem chainTs_nil {lo hi : Nat} (h : lo ≤ hi) : chainTs lo [] hi = true := by
  simp [chainTs, chainEndT, h]

theorem chainTs_single {lo hi : Nat} (t : TTree) (h1 : lo ≤ t.n.b.pos) (h2 : t.n.b.pos ≤ t.n.e.pos) (h3 : t.n.e.pos ≤ hi) :
    chainTs lo [t] hi = true := by
  simp [chainTs, chainEndT, h1, h2, h3]

/-- A transformer keeps nesting and the chain of the roots. -/
theorem transform_nested (s : Sel) (n : TNode) (ks : List TTree) (hn : nestedTs ks = true)
    (hc : chainTs n.b.pos ks n.e.pos = true) :
    nestedTs (transformTree s n ks) = true ∧ chainTs n.b.pos (transformTree s n ks) n.e.pos = true := by
  have hle := chainTs_le hc
  have node : ∀ n' : TNode, n'.b = n.b → n'.e = n.e →
      nestedTs [TTree.mk n' ks] = true ∧ chainTs n.b.pos [TTree.mk n' ks] n.e.pos = true := by
    intro n' hb he
    refine ⟨by simp [nestedTs, nestedT, hb, he, hc, hn], ?_⟩
    exact chainTs_single _ (by simp [TTree.n, hb]) (by simp [TTree.n, hb, he, hle]) (by simp [TTree.n, he])
  cases s with
  | store => exact node n rfl rfl
  | removeContent => exact node _ rfl rfl
  | foldOne =>
    simp only [transformTree]
    split
    · exact ⟨hn, hc⟩
    · exact node _ rfl rfl
  | discardEmpty =>
    simp only [transformTree]
    split
    · exact ⟨rfl, chainTs_nil hle⟩
    · exact node _ rfl rfl

mutual
theorem nested_of_wellT (rr : Nat → Bool) (hrr : ∀ i, rr i = false) (cls : Nat → Cls) : ∀ t : Invoc, wellT rr t = true →
    nestedTs (specTreeT cls t) = true ∧ (t.res = 1 → chainTs t.b.pos (specTreeT cls t) t.e.pos = true)
  | .mk i a m kc res b e kids => by
    intro hw
    simp only [wellT, Bool.and_eq_true, Bool.or_eq_true, bne_iff_ne, ne_eq, hrr, Bool.false_eq_true, or_false] at hw
    obtain ⟨hwk, hc⟩ := hw
    simp only [specTreeT, Invoc.res, Invoc.b, Invoc.e]
    by_cases hres : res = 1
    · have hc' : chainOK b.pos kids e.pos = true := by
        rcases hc with hc | hc
        · exact absurd hres hc
        · exact hc
      obtain ⟨hn, hch⟩ := nested_of_wellL rr hrr cls kids b.pos e.pos hwk hc'
      simp only [hres, ne_eq, not_true_eq_false, if_false]
      cases hcl : cls i with
      | sel s =>
        obtain ⟨h1, h2⟩ := transform_nested s ⟨i, b, e, true⟩ (specTreeL cls kids) hn hch
        exact ⟨h1, fun _ => h2⟩
      | branch => exact ⟨hn, fun _ => hch⟩
      | leaf => exact ⟨hn, fun _ => hch⟩
    · simp [hres, nestedTs]
theorem nested_of_wellL (rr : Nat → Bool) (hrr : ∀ i, rr i = false) (cls : Nat → Cls) : ∀ (ts : List Invoc) (lo hi : Nat),
    wellL rr ts = true → chainOK lo ts hi = true →
    nestedTs (specTreeL cls ts) = true ∧ chainTs lo (specTreeL cls ts) hi = true
  | [], lo, hi => by
    intro _ hc
    exact ⟨rfl, chainTs_nil (chainOK_le hc)⟩
  | t :: ts, lo, hi => by
    intro hw hc
    simp only [wellL, Bool.and_eq_true] at hw
    obtain ⟨hwt, hwts⟩ := hw
    obtain ⟨hn1, hc1⟩ := nested_of_wellT rr hrr cls t hwt
    simp only [specTreeL, nestedTs_append]
    rw [chainOK_iff] at hc
    obtain ⟨e', he', hle'⟩ := hc
    simp only [chainEnd] at he'
    by_cases hres : t.res = 1
    · rw [if_pos hres] at he'
      split at he'
      · rename_i hb
        have hrest : chainOK t.e.pos ts hi = true := chainOK_iff.mpr ⟨e', he', hle'⟩
        obtain ⟨hn2, hc2⟩ := nested_of_wellL rr hrr cls ts t.e.pos hi hwts hrest
        exact ⟨by rw [hn1, hn2]; rfl, chainTs_append (chainTs_widen (hc1 hres) hb.1 (Nat.le_refl _)) hc2⟩
      · exact absurd he' (by simp)
    · rw [if_neg hres] at he'
      have hrest : chainOK lo ts hi = true := chainOK_iff.mpr ⟨e', he', hle'⟩
      obtain ⟨hn2, hc2⟩ := nested_of_wellL rr hrr cls ts lo hi hwts hrest
      have hemp : specTreeT cls t = [] := by
        cases t with
        | mk i a m kc res b e kids =>
          simp only [Invoc.res] at hres
          simp [specTreeT, hres]
      rw [hemp]
      exact ⟨by simpa [nestedTs] using hn2, by simpa using hc2⟩
end

end Pegtl
