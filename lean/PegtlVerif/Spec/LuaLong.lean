/-
  Spec/LuaLong.lean — what a Lua long-bracket literal is (Lua reference manual §3.1, quoted
  in the header comment of contrib/raw_string.hpp), over customisable bracket characters.

  This file is *specification*: positions in a byte array, no cursor, no loops of the
  implementation.  It uses `Model/Basic.lean` only for the enumeration `Eol` of the five
  end-of-line policies.

    * "An opening long bracket of level n is an opening square bracket followed by n equal
       signs followed by another opening square bracket"                      → `OpenAt`
    * "A closing long bracket is defined similarly"                            → `CloseAt`
    * "A long literal starts with an opening long bracket of any level and ends at the
       first closing long bracket of the same level. It can contain any text except a
       closing bracket of the same level … ignore long brackets of any other level"
                                                                               → `Long.first`
    * "when the opening long bracket is immediately followed by a newline, the newline is
       not included in the string"                                             → `Long.skip`
-/
import PegtlVerif.Model.Basic

namespace Pegtl.LuaLong
open Pegtl

/-- Documented accept set of the end-of-line rule per policy (doc/Rule-Reference.md `eol`,
    doc/Inputs-and-Parsing.md): number of bytes of the line ending that starts at `p`,
    `0` if there is none.  `lf`: LF; `cr`: CR; `crlf`: CR LF; `lf_crlf`: LF or CR LF;
    `cr_crlf`: CR LF or CR. -/
def eolLen (e : Eol) (s : Array UInt8) (p : Nat) : Nat :=
  let lf := s[p]? = some 10
  let cr := s[p]? = some 13
  let crlf := s[p]? = some 13 ∧ s[p + 1]? = some 10
  match e with
  | .lf => if lf then 1 else 0
  | .cr => if cr then 1 else 0
  | .crlf => if crlf then 2 else 0
  | .lfCrlf => if lf then 1 else if crlf then 2 else 0
  | .crCrlf => if crlf then 2 else if cr then 1 else 0

/-- An opening long bracket of level `n` starts at `p`:  `o mⁿ o`. -/
def OpenAt (o m : UInt8) (s : Array UInt8) (p n : Nat) : Prop :=
  s[p]? = some o ∧ (∀ i, i < n → s[p + 1 + i]? = some m) ∧ s[p + 1 + n]? = some o

/-- A closing long bracket of level `n` starts at `q`:  `c mⁿ c`. -/
def CloseAt (m c : UInt8) (s : Array UInt8) (q n : Nat) : Prop :=
  s[q]? = some c ∧ (∀ i, i < n → s[q + 1 + i]? = some m) ∧ s[q + 1 + n]? = some c

instance (o m : UInt8) (s : Array UInt8) (p n : Nat) : Decidable (OpenAt o m s p n) := by
  unfold OpenAt; infer_instance

instance (m c : UInt8) (s : Array UInt8) (q n : Nat) : Decidable (CloseAt m c s q n) := by
  unfold CloseAt; infer_instance

/-- A long literal of level `n` starts at `p`; its content is `s[b, e)` and the literal
    ends at `e + n + 2` (just behind the closing bracket that starts at `e`). -/
structure Long (o m c : UInt8) (eol : Eol) (s : Array UInt8) (p n b e : Nat) : Prop where
  /-- it starts with an opening long bracket of level `n` -/
  opener : OpenAt o m s p n
  /-- one line ending directly behind the opening bracket does not belong to the content -/
  skip : b = p + n + 2 + eolLen eol s (p + n + 2)
  body : b ≤ e
  /-- the content is followed by a closing long bracket of the same level … -/
  close : CloseAt m c s e n
  /-- … and that is the first one: no closing bracket of level `n` starts inside the content
      (closing brackets of other levels may) -/
  first : ∀ q, b ≤ q → q < e → ¬ CloseAt m c s q n

/-- Position just behind a literal of level `n` whose closing bracket starts at `e`. -/
def stop (n e : Nat) : Nat := e + n + 2

/-- Least `i` in `[i₀, i₀ + fuel)` with `P i`. -/
def findFrom (P : Nat → Bool) : Nat → Nat → Option Nat
  | 0, _ => none
  | f + 1, i => if P i then some i else findFrom P f (i + 1)

/-- Executable form of `Long`: `some (n, b, e)` for the long literal that starts at `p`. -/
def scan (o m c : UInt8) (eol : Eol) (s : Array UInt8) (p : Nat) : Option (Nat × Nat × Nat) :=
  match findFrom (fun n => decide (OpenAt o m s p n)) s.size 0 with
  | none => none
  | some n =>
    let b := p + n + 2 + eolLen eol s (p + n + 2)
    match findFrom (fun q => decide (CloseAt m c s q n)) (s.size + 1 - b) b with
    | none => none
    | some e => some (n, b, e)

/-- The variant with content rules: the content is cut into consecutive pieces, each matched
    by the content rule (`step q = some q'`: the rule matches `s[q, q')`), no piece starts at
    a closing bracket of level `n`, and the last piece ends at one. -/
inductive Pieces (m c : UInt8) (s : Array UInt8) (n : Nat) (step : Nat → Option Nat) : Nat → Nat → Prop
  | done {e} : CloseAt m c s e n → Pieces m c s n step e e
  | piece {q q' e} : ¬ CloseAt m c s q n → step q = some q' → Pieces m c s n step q' e →
      Pieces m c s n step q e

/-- A long literal whose content must be a sequence of matches of the content rule. -/
structure LongWith (o m c : UInt8) (eol : Eol) (s : Array UInt8) (step : Nat → Option Nat)
    (p n b e : Nat) : Prop where
  opener : OpenAt o m s p n
  skip : b = p + n + 2 + eolLen eol s (p + n + 2)
  pieces : Pieces m c s n step b e

end Pegtl.LuaLong
