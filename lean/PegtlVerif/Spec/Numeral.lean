/-
  Spec/Numeral.lean — what property C15 means, independent of the control flow of
  contrib/integer.hpp:

  * the mathematical value of a decimal digit string (positional notation, big integers),
  * the documented numeral syntax of `unsigned_rule_new` / `signed_rule_new`
    ("New version that does not allow leading zeros"):
        unsigned  ::=  '0' !digit  |  digit+            (PEG: longest run of digits, and
                                                         that run is "0" or starts with 1-9)
        signed    ::=  ( '-' | '+' )?  unsigned
  * the value ranges of the C++ integer types.

  Core Lean only.
-/
namespace Pegtl.Spec.Numeral

/-- ASCII `'0' … '9'`. -/
def isDigit (c : UInt8) : Bool := decide (48 ≤ c.toNat ∧ c.toNat ≤ 57)

/-- Numeric value of an ASCII digit. -/
def digitVal (c : UInt8) : Nat := c.toNat - 48

/-- Value of a digit string in positional notation, most significant digit first:
    `value [d₁,…,dₙ] = Σ dᵢ · 10^(n-i)`. -/
def value : List UInt8 → Nat
  | [] => 0
  | c :: ds => digitVal c * 10 ^ ds.length + value ds

/-- Every byte is a digit. -/
def AllDigits (ds : List UInt8) : Prop := ∀ c ∈ ds, isDigit c = true

instance (ds : List UInt8) : Decidable (AllDigits ds) := by unfold AllDigits; infer_instance

/-- The maximal run of digits at the head of the window (PEG `star< digit >` is greedy). -/
def digitRun (bs : List UInt8) : List UInt8 := bs.takeWhile isDigit

/-- `0 | [1-9][0-9]*` as a predicate on a digit string: non-empty, and no superfluous
    leading zero. -/
def Canonical (ds : List UInt8) : Prop :=
  match ds with
  | [] => False
  | c :: rest => c ≠ 48 ∨ rest = []

instance (ds : List UInt8) : Decidable (Canonical ds) := by
  unfold Canonical; cases ds <;> infer_instance

/-- Documented syntax of `unsigned_rule_new` at the head of the window `bs`:
    `some n` = matches exactly the first `n` bytes, `none` = local failure.
    (`if_then_else< one<'0'>, not_at< digit >, plus< digit > >`: the whole digit run is
    taken, and it must not have a superfluous leading zero.) -/
def unsignedLen (bs : List UInt8) : Option Nat :=
  if Canonical (digitRun bs) then some (digitRun bs).length else none

def isSign (c : UInt8) : Bool := c == 45 || c == 43    -- '-' , '+'

/-- Documented syntax of `signed_rule_new`: an optional sign, then an unsigned numeral. -/
def signedLen (bs : List UInt8) : Option Nat :=
  match bs with
  | c :: rest => if isSign c then (unsignedLen rest).map (· + 1) else unsignedLen bs
  | [] => none

/-- The mathematical value of a (matched) signed numeral `[sign] digits`. -/
def signedValue (bs : List UInt8) : Int :=
  match bs with
  | c :: rest => if c = 45 then -(value rest : Int) else if c = 43 then (value rest : Int) else (value bs : Int)
  | [] => 0

/-- Largest value of the unsigned `w`-bit type. -/
def umax (w : Nat) : Nat := 2 ^ w - 1
/-- Largest value of the signed `w`-bit type. -/
def smax (w : Nat) : Nat := 2 ^ (w - 1) - 1
/-- Smallest value of the signed `w`-bit type (two's complement). -/
def smin (w : Nat) : Int := -(2 ^ (w - 1) : Nat)

end Pegtl.Spec.Numeral
