/-
  Spec/Unicode.lean — what "a complete well-formed unit whose value is in the documented set"
  means for property C10, written without reference to the control flow of the C++ code.

  * Unicode scalar values and the three encoding forms (Unicode Standard §3.9, D90–D92):
    `encodeUtf8`, `encodeUtf16`, `encodeUtf32` are the *encoders* (arithmetic with `/` and `%`,
    no bit tricks); a byte string is a well-formed unit iff it is the encoding of a scalar value.
  * Table 3-7 ("Well-Formed UTF-8 Byte Sequences") as an independent byte-range table.
  * The value of a byte string as an unsigned integer, big- and little-endian.
  * The documented ASCII / ABNF character sets (doc/Rule-Reference.md, RFC 5234 App. B).

  Core Lean only.
-/
namespace Pegtl

/-- Byte order of an encoding form or of a host. -/
inductive Endian | big | little
  deriving DecidableEq, Repr, Inhabited

namespace Unicode

/-- Unicode scalar value (D76): a code point that is not a surrogate. -/
def isScalar (cp : Nat) : Prop := cp < 0xD800 ∨ (0xE000 ≤ cp ∧ cp ≤ 0x10FFFF)

instance (cp : Nat) : Decidable (isScalar cp) :=
  inferInstanceAs (Decidable (cp < 0xD800 ∨ (0xE000 ≤ cp ∧ cp ≤ 0x10FFFF)))

/-- Number of bytes of the UTF-8 encoding form (Table 3-6). -/
def encLen (cp : Nat) : Nat :=
  if cp < 0x80 then 1 else if cp < 0x800 then 2 else if cp < 0x10000 then 3 else 4

/-- UTF-8 encoding form, Table 3-6 (bit distribution written with `/` and `%`). -/
def encodeUtf8 (cp : Nat) : List UInt8 :=
  if cp < 0x80 then [cp.toUInt8]
  else if cp < 0x800 then [(0xC0 + cp / 64).toUInt8, (0x80 + cp % 64).toUInt8]
  else if cp < 0x10000 then
    [(0xE0 + cp / 4096).toUInt8, (0x80 + cp / 64 % 64).toUInt8, (0x80 + cp % 64).toUInt8]
  else
    [(0xF0 + cp / 262144).toUInt8, (0x80 + cp / 4096 % 64).toUInt8,
     (0x80 + cp / 64 % 64).toUInt8, (0x80 + cp % 64).toUInt8]

/-- A byte lies in the closed range `lo..hi`. -/
def inRange (lo hi : Nat) (b : UInt8) : Prop := lo ≤ b.toNat ∧ b.toNat ≤ hi

instance (lo hi : Nat) (b : UInt8) : Decidable (inRange lo hi b) :=
  inferInstanceAs (Decidable (lo ≤ b.toNat ∧ b.toNat ≤ hi))

/-- Table 3-7, Well-Formed UTF-8 Byte Sequences: the length of the well-formed sequence that
    `bs` starts with, if any.  One line per row of the table, byte ranges only. -/
def table37 : List UInt8 → Option Nat
  | [] => none
  | b0 :: rest =>
    if inRange 0x00 0x7F b0 then some 1
    else if inRange 0xC2 0xDF b0 then
      match rest with
      | b1 :: _ => if inRange 0x80 0xBF b1 then some 2 else none
      | _ => none
    else if inRange 0xE0 0xEF b0 then
      match rest with
      | b1 :: b2 :: _ =>
        if      inRange 0xE0 0xE0 b0 ∧ inRange 0xA0 0xBF b1 ∧ inRange 0x80 0xBF b2 then some 3
        else if inRange 0xE1 0xEC b0 ∧ inRange 0x80 0xBF b1 ∧ inRange 0x80 0xBF b2 then some 3
        else if inRange 0xED 0xED b0 ∧ inRange 0x80 0x9F b1 ∧ inRange 0x80 0xBF b2 then some 3
        else if inRange 0xEE 0xEF b0 ∧ inRange 0x80 0xBF b1 ∧ inRange 0x80 0xBF b2 then some 3
        else none
      | _ => none
    else if inRange 0xF0 0xF4 b0 then
      match rest with
      | b1 :: b2 :: b3 :: _ =>
        if      inRange 0xF0 0xF0 b0 ∧ inRange 0x90 0xBF b1 ∧ inRange 0x80 0xBF b2 ∧ inRange 0x80 0xBF b3 then some 4
        else if inRange 0xF1 0xF3 b0 ∧ inRange 0x80 0xBF b1 ∧ inRange 0x80 0xBF b2 ∧ inRange 0x80 0xBF b3 then some 4
        else if inRange 0xF4 0xF4 b0 ∧ inRange 0x80 0x8F b1 ∧ inRange 0x80 0xBF b2 ∧ inRange 0x80 0xBF b3 then some 4
        else none
      | _ => none
    else none

/-- The 16-bit code units of the UTF-16 encoding form (Table 3-5). -/
def utf16Units (cp : Nat) : List Nat :=
  if cp < 0x10000 then [cp]
  else [0xD800 + (cp - 0x10000) / 1024, 0xDC00 + (cp - 0x10000) % 1024]

/-- Number of bytes of the UTF-16 encoding. -/
def encLen16 (cp : Nat) : Nat := if cp < 0x10000 then 2 else 4

/-- The `w` least significant bytes of `v`, least significant first. -/
def leBytes : Nat → Nat → List UInt8
  | 0, _ => []
  | w + 1, v => (v % 256).toUInt8 :: leBytes w (v / 256)

/-- The `w` bytes of the unsigned integer `v` (`v < 256 ^ w`) in byte order `e`:
    big-endian is little-endian reversed. -/
def uintBytes : Endian → Nat → Nat → List UInt8
  | .little, w, v => leBytes w v
  | .big, w, v => (leBytes w v).reverse

/-- UTF-16 encoding scheme (UTF-16BE / UTF-16LE, D96–D98). -/
def encodeUtf16 (e : Endian) (cp : Nat) : List UInt8 :=
  (utf16Units cp).flatMap (uintBytes e 2)

/-- UTF-32 encoding scheme (UTF-32BE / UTF-32LE). -/
def encodeUtf32 (e : Endian) (cp : Nat) : List UInt8 := uintBytes e 4 cp

/-- Value of a byte string read as a little-endian unsigned integer: `Σ bᵢ · 256^i`. -/
def leValue : List UInt8 → Nat
  | [] => 0
  | b :: t => b.toNat + 256 * leValue t

/-- Value of a byte string read as a big-endian unsigned integer: `Σ bᵢ · 256^(len-1-i)`. -/
def beValue (bs : List UInt8) : Nat := leValue bs.reverse

/-- Value of a byte string in byte order `e`. -/
def uintValue : Endian → List UInt8 → Nat
  | .big, bs => beValue bs
  | .little, bs => leValue bs

/-- "Optionally masked": `mask_*` rules compare `value & M`. -/
def masked : Option Nat → Nat → Nat
  | none, x => x
  | some M, x => x &&& M

/-- Documented meaning of `ranges< Lo1, Hi1, Lo2, Hi2, …[, Eq] >`. -/
def inPairs : List Int → Int → Prop
  | lo :: hi :: rest, c => (lo ≤ c ∧ c ≤ hi) ∨ inPairs rest c
  | [x], c => c = x
  | [], _ => False

end Unicode

/-! ### Documented ASCII and ABNF character sets

`doc/Rule-Reference.md` ("ASCII Rules") and RFC 5234 Appendix B.1, as predicates on the byte
value.  These are written from the documents, not from `ascii.hpp` / `abnf.hpp`. -/
namespace AsciiDoc

def isLower (c : Nat) : Bool := 0x61 ≤ c && c ≤ 0x7A          -- 'a'..'z'
def isUpper (c : Nat) : Bool := 0x41 ≤ c && c ≤ 0x5A          -- 'A'..'Z'
def isDigit (c : Nat) : Bool := 0x30 ≤ c && c ≤ 0x39          -- '0'..'9'
def isAlpha (c : Nat) : Bool := isLower c || isUpper c
def isAlnum (c : Nat) : Bool := isAlpha c || isDigit c
def isBlank (c : Nat) : Bool := c = 0x20 || c = 0x09           -- ' ' '\t'
def isOdigit (c : Nat) : Bool := 0x30 ≤ c && c ≤ 0x37
def isXdigit (c : Nat) : Bool := isDigit c || (0x61 ≤ c && c ≤ 0x66) || (0x41 ≤ c && c ≤ 0x46)
def isPrint (c : Nat) : Bool := 32 ≤ c && c ≤ 126
def isSeven (c : Nat) : Bool := c ≤ 127
def isNul (c : Nat) : Bool := c = 0
def isSpace (c : Nat) : Bool :=                                -- ' ' '\n' '\r' '\t' '\v' '\f'
  c = 0x20 || c = 0x0A || c = 0x0D || c = 0x09 || c = 0x0B || c = 0x0C
def isIdentFirst (c : Nat) : Bool := isAlpha c || c = 0x5F     -- '_'
def isIdentOther (c : Nat) : Bool := isAlnum c || c = 0x5F
def isAny (_ : Nat) : Bool := true

-- RFC 5234 B.1
def ALPHA (c : Nat) : Bool := (0x41 ≤ c && c ≤ 0x5A) || (0x61 ≤ c && c ≤ 0x7A)
def BIT (c : Nat) : Bool := c = 0x30 || c = 0x31
def CHAR (c : Nat) : Bool := 0x01 ≤ c && c ≤ 0x7F
def CR (c : Nat) : Bool := c = 0x0D
def CTL (c : Nat) : Bool := c ≤ 0x1F || c = 0x7F
def DIGIT (c : Nat) : Bool := 0x30 ≤ c && c ≤ 0x39
def DQUOTE (c : Nat) : Bool := c = 0x22
/-- RFC 5234: `HEXDIG = DIGIT / "A" / … / "F"`, and ABNF strings are case-insensitive, so
    `"a"`–`"f"` are included (PEGTL documents `ranges< '0','9','a','f','A','F' >`). -/
def HEXDIG (c : Nat) : Bool := DIGIT c || (0x41 ≤ c && c ≤ 0x46) || (0x61 ≤ c && c ≤ 0x66)
def HTAB (c : Nat) : Bool := c = 0x09
def LF (c : Nat) : Bool := c = 0x0A
def OCTET (c : Nat) : Bool := c ≤ 0xFF
def SP (c : Nat) : Bool := c = 0x20
def VCHAR (c : Nat) : Bool := 0x21 ≤ c && c ≤ 0x7E
def WSP (c : Nat) : Bool := c = 0x20 || c = 0x09

/-- The documented set of each single-character class, by the name used in the headers
    (`abnf::` classes are prefixed `abnf.`). -/
def documented : String → Option (Nat → Bool)
  | "alnum" => some isAlnum | "alpha" => some isAlpha | "any" => some isAny
  | "blank" => some isBlank | "digit" => some isDigit
  | "identifier_first" => some isIdentFirst | "identifier_other" => some isIdentOther
  | "lower" => some isLower | "nul" => some isNul | "odigit" => some isOdigit
  | "print" => some isPrint | "seven" => some isSeven | "space" => some isSpace
  | "upper" => some isUpper | "xdigit" => some isXdigit
  | "abnf.ALPHA" => some ALPHA | "abnf.BIT" => some BIT | "abnf.CHAR" => some CHAR
  | "abnf.CR" => some CR | "abnf.CTL" => some CTL | "abnf.DIGIT" => some DIGIT
  | "abnf.DQUOTE" => some DQUOTE | "abnf.HEXDIG" => some HEXDIG | "abnf.HTAB" => some HTAB
  | "abnf.LF" => some LF | "abnf.OCTET" => some OCTET | "abnf.SP" => some SP
  | "abnf.VCHAR" => some VCHAR | "abnf.WSP" => some WSP
  | _ => none

/-- Case-insensitive comparison folds exactly the ASCII letters: the other case of a letter. -/
def flipCase (c : UInt8) : UInt8 := c ^^^ 0x20

end AsciiDoc
end Pegtl
