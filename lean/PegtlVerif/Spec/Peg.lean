/-
  Spec/Peg.lean — the PEG formalism (Ford 2004) extended with labelled global failures
  (Maidl et al.), as a big-step relation `Sem`, plus a fuel evaluator `semEval` for it and
  the table `expandKind` of documented expansions (doc/Rule-Reference.md, "Equivalent to").

  This file is *specification*: it shares the grammar table and the atom vocabulary with the
  model but none of the model's control flow.
-/
import PegtlVerif.Model.Basic
import PegtlVerif.Model.Utf

namespace Pegtl.Spec
open Pegtl

/-- Parsing expressions. `plus`, `opt` and n-ary sequences/choices are sugar (below). -/
inductive PExp
  | eps
  | failE
  | atom (a : Atom)
  | ref (i : Nat)
  | seq (e₁ e₂ : PExp)
  | alt (e₁ e₂ : PExp)
  | star (e : PExp)
  | and_ (e : PExp)
  | not_ (e : PExp)
  | raise (l : Nat)
  | catchF (e : PExp)
  | catchN (l : Nat) (e : PExp)
  | sub (h e : PExp)
  deriving DecidableEq, Repr, Inhabited

def PExp.plus (e : PExp) : PExp := .seq e (.star e)
def PExp.opt (e : PExp) : PExp := .alt e .eps
def PExp.must (e : PExp) (l : Nat) : PExp := .alt e (.raise l)

/-- `seq< e₁, …, eₙ >`. -/
def seqL : List PExp → PExp
  | [] => .eps
  | e :: es => .seq e (seqL es)

/-- `sor< e₁, …, eₙ >`. -/
def altL : List PExp → PExp
  | [] => .failE
  | e :: es => .alt e (altL es)

/-- `rep< n, e >`. -/
def repE : Nat → PExp → PExp
  | 0, _ => .eps
  | n + 1, e => .seq e (repE n e)

/-- `rep_opt< n, e >` = at most `n` greedy repetitions. -/
def repOptE : Nat → PExp → PExp
  | 0, _ => .eps
  | n + 1, e => .alt (.seq e (repOptE n e)) .eps

/-- Who is blamed for a global failure. -/
inductive Blame
  | parse (l : Nat)
  | nested (l : Nat) (inner : Blame)
  deriving DecidableEq, Repr, Inhabited

inductive Outcome
  | ok (q : Nat)
  | fail
  | err (b : Blame)
  deriving DecidableEq, Repr, Inhabited

def bytesAt (inp : Array UInt8) (p : Nat) : List UInt8 → Bool
  | [] => true
  | c :: cs => inp.getD p 0 == c && bytesAt inp (p + 1) cs

def ibytesAt (inp : Array UInt8) (p : Nat) : List UInt8 → Bool
  | [] => true
  | c :: cs =>
    (let d := inp.getD p 0
     if (97 ≤ c && c ≤ 122) || (65 ≤ c && c ≤ 90) then (c == d || c ^^^ 0x20 == d) else c == d)
    && ibytesAt inp (p + 1) cs

/-- Documented meaning of the end-of-line rule per policy: the number of bytes of the
    line ending that starts at `p`, if any. -/
def eolLen (eol : Eol) (inp : Array UInt8) (endp p : Nat) : Option Nat :=
  let b0 := if p < endp then some (inp.getD p 0) else none
  let b1 := if p + 1 < endp then some (inp.getD (p + 1) 0) else none
  match eol with
  | .lf => if b0 = some 10 then some 1 else none
  | .cr => if b0 = some 13 then some 1 else none
  | .crlf => if b0 = some 13 ∧ b1 = some 10 then some 2 else none
  | .lfCrlf => if b0 = some 10 then some 1 else if b0 = some 13 ∧ b1 = some 10 then some 2 else none
  | .crCrlf => if b0 = some 13 ∧ b1 = some 10 then some 2 else if b0 = some 13 then some 1 else none

/-- Accept sets of the atomic rules, as documented: `some q` = matches `[p, q)`.
    Position-dependent atoms (`bof`, `bol`) are not part of the byte-offset semantics. -/
def atomSem (eol : Eol) (inp : Array UInt8) (endp : Nat) (a : Atom) (p : Nat) : Option Nat :=
  match a with
  | .any => if p < endp then some (p + 1) else none
  | .one found cs => if p < endp ∧ cs.contains (inp.getD p 0) = found then some (p + 1) else none
  | .range found lo hi =>
    if p < endp ∧ (decide (lo ≤ inp.getD p 0 ∧ inp.getD p 0 ≤ hi)) = found then some (p + 1) else none
  | .ranges rs single =>
    if p < endp ∧ (rs.any (fun r => r.1 ≤ inp.getD p 0 && inp.getD p 0 ≤ r.2) || single == some (inp.getD p 0))
    then some (p + 1) else none
  | .string cs => if p + cs.length ≤ endp ∧ bytesAt inp p cs then some (p + cs.length) else none
  | .istring cs => if p + cs.length ≤ endp ∧ ibytesAt inp p cs then some (p + cs.length) else none
  | .bytes n => if p + n ≤ endp then some (p + n) else none
  | .eof => if p = endp then some p else none
  | .bof => none
  | .bol => none
  | .eol => (eolLen eol inp endp p).map (p + ·)
  | .eolf => if p = endp then some p else (eolLen eol inp endp p).map (p + ·)
  | .success => some p
  | .failure => none
  | .everything => some (max p endp)
  | .require n => if p + n ≤ endp then some p else none
  -- one well-formed UTF-8 encoded scalar value in the range (`Utf.peekUtf8` is characterised as exactly
  -- Unicode Table 3-7 by Props/C10.lean `C10_utf8`, `C10_utf8_table`)
  | .utf8Range found lo hi =>
    match Pegtl.Utf.peekUtf8 ((inp.toList.drop p).take (endp - p)) with
    | some (cp, n) => if decide (lo ≤ cp ∧ cp ≤ hi) = found then some (p + n) else none
    | none => none
  -- between `lo` and `hi` copies of `c`, and no further `c` behind them
  | .repOne lo hi c =>
    let w := ((inp.toList.drop p).take (endp - p)).take (hi + 1)
    if w.length < lo then none
    else
      let i := (w.takeWhile (· == c)).length
      if lo ≤ i ∧ i ≤ hi then some (p + i) else none
  -- the maximal run of digits, without a superfluous leading zero, whose value is at most `mx`
  | .maxDigits mx =>
    let ds := ((inp.toList.drop p).take (endp - p)).takeWhile (fun c => 48 ≤ c && c ≤ 57)
    if ds.isEmpty then none
    else if ds.length > 1 ∧ ds.head? = some 48 then none
    else if ds.foldl (fun acc d => acc * 10 + (d.toNat - 48)) 0 ≤ mx then some (p + ds.length) else none

/-- The PEG-with-errors big-step relation.  `G i` is the expression named `i`;
    `endp` is the end of the (sub-)input. -/
inductive Sem (G : Nat → Option PExp) (eol : Eol) (inp : Array UInt8) : Nat → PExp → Nat → Outcome → Prop
  | eps {endp p} : Sem G eol inp endp .eps p (.ok p)
  | failE {endp p} : Sem G eol inp endp .failE p .fail
  | atomOk {endp a p q} : atomSem eol inp endp a p = some q → Sem G eol inp endp (.atom a) p (.ok q)
  | atomFail {endp a p} : atomSem eol inp endp a p = none → Sem G eol inp endp (.atom a) p .fail
  | ref {endp i e p r} : G i = some e → Sem G eol inp endp e p r → Sem G eol inp endp (.ref i) p r
  | seqOk {endp e₁ e₂ p q r} : Sem G eol inp endp e₁ p (.ok q) → Sem G eol inp endp e₂ q r →
      Sem G eol inp endp (.seq e₁ e₂) p r
  | seqFail {endp e₁ e₂ p} : Sem G eol inp endp e₁ p .fail → Sem G eol inp endp (.seq e₁ e₂) p .fail
  | seqErr {endp e₁ e₂ p b} : Sem G eol inp endp e₁ p (.err b) → Sem G eol inp endp (.seq e₁ e₂) p (.err b)
  | altOk {endp e₁ e₂ p q} : Sem G eol inp endp e₁ p (.ok q) → Sem G eol inp endp (.alt e₁ e₂) p (.ok q)
  | altErr {endp e₁ e₂ p b} : Sem G eol inp endp e₁ p (.err b) → Sem G eol inp endp (.alt e₁ e₂) p (.err b)
  | altFail {endp e₁ e₂ p r} : Sem G eol inp endp e₁ p .fail → Sem G eol inp endp e₂ p r →
      Sem G eol inp endp (.alt e₁ e₂) p r
  | starDone {endp e p} : Sem G eol inp endp e p .fail → Sem G eol inp endp (.star e) p (.ok p)
  | starErr {endp e p b} : Sem G eol inp endp e p (.err b) → Sem G eol inp endp (.star e) p (.err b)
  | starStep {endp e p q r} : Sem G eol inp endp e p (.ok q) → Sem G eol inp endp (.star e) q r →
      Sem G eol inp endp (.star e) p r
  | andOk {endp e p q} : Sem G eol inp endp e p (.ok q) → Sem G eol inp endp (.and_ e) p (.ok p)
  | andFail {endp e p} : Sem G eol inp endp e p .fail → Sem G eol inp endp (.and_ e) p .fail
  | andErr {endp e p b} : Sem G eol inp endp e p (.err b) → Sem G eol inp endp (.and_ e) p (.err b)
  | notOk {endp e p q} : Sem G eol inp endp e p (.ok q) → Sem G eol inp endp (.not_ e) p .fail
  | notFail {endp e p} : Sem G eol inp endp e p .fail → Sem G eol inp endp (.not_ e) p (.ok p)
  | notErr {endp e p b} : Sem G eol inp endp e p (.err b) → Sem G eol inp endp (.not_ e) p (.err b)
  | raise {endp l p} : Sem G eol inp endp (.raise l) p (.err (.parse l))
  | catchFOk {endp e p q} : Sem G eol inp endp e p (.ok q) → Sem G eol inp endp (.catchF e) p (.ok q)
  | catchFFail {endp e p} : Sem G eol inp endp e p .fail → Sem G eol inp endp (.catchF e) p .fail
  | catchFErr {endp e p b} : Sem G eol inp endp e p (.err b) → Sem G eol inp endp (.catchF e) p .fail
  | catchNOk {endp l e p q} : Sem G eol inp endp e p (.ok q) → Sem G eol inp endp (.catchN l e) p (.ok q)
  | catchNFail {endp l e p} : Sem G eol inp endp e p .fail → Sem G eol inp endp (.catchN l e) p .fail
  | catchNErr {endp l e p b} : Sem G eol inp endp e p (.err b) →
      Sem G eol inp endp (.catchN l e) p (.err (.nested l b))
  | subOk {endp h e p q q'} : Sem G eol inp endp h p (.ok q) → Sem G eol inp q e p (.ok q') →
      Sem G eol inp endp (.sub h e) p (.ok q)
  | subInnerFail {endp h e p q} : Sem G eol inp endp h p (.ok q) → Sem G eol inp q e p .fail →
      Sem G eol inp endp (.sub h e) p .fail
  | subInnerErr {endp h e p q b} : Sem G eol inp endp h p (.ok q) → Sem G eol inp q e p (.err b) →
      Sem G eol inp endp (.sub h e) p (.err b)
  | subFail {endp h e p} : Sem G eol inp endp h p .fail → Sem G eol inp endp (.sub h e) p .fail
  | subErr {endp h e p b} : Sem G eol inp endp h p (.err b) → Sem G eol inp endp (.sub h e) p (.err b)

/-- Fuel evaluator for `Sem`: structural on the expression, fuel is spent on rule
    references and on repetition steps. -/
def semEvalE (G : Nat → Option PExp) (eol : Eol) (inp : Array UInt8) :
    Nat → Nat → PExp → Nat → Option Outcome
  | _, _, .eps, p => some (.ok p)
  | _, _, .failE, _ => some .fail
  | _, endp, .atom a, p =>
    match atomSem eol inp endp a p with
    | some q => some (.ok q)
    | none => some .fail
  | 0, _, .ref _, _ => none
  | f + 1, endp, .ref i, p =>
    match G i with
    | some e => semEvalE G eol inp f endp e p
    | none => none
  | f, endp, .seq e₁ e₂, p =>
    match semEvalE G eol inp f endp e₁ p with
    | some (.ok q) => semEvalE G eol inp f endp e₂ q
    | o => o
  | f, endp, .alt e₁ e₂, p =>
    match semEvalE G eol inp f endp e₁ p with
    | some .fail => semEvalE G eol inp f endp e₂ p
    | o => o
  | 0, _, .star _, _ => none
  | f + 1, endp, .star e, p =>
    match semEvalE G eol inp f endp e p with
    | some (.ok q) => semEvalE G eol inp f endp (.star e) q
    | some .fail => some (.ok p)
    | o => o
  | f, endp, .and_ e, p =>
    match semEvalE G eol inp f endp e p with
    | some (.ok _) => some (.ok p)
    | o => o
  | f, endp, .not_ e, p =>
    match semEvalE G eol inp f endp e p with
    | some (.ok _) => some .fail
    | some .fail => some (.ok p)
    | o => o
  | _, _, .raise l, _ => some (.err (.parse l))
  | f, endp, .catchF e, p =>
    match semEvalE G eol inp f endp e p with
    | some (.err _) => some .fail
    | o => o
  | f, endp, .catchN l e, p =>
    match semEvalE G eol inp f endp e p with
    | some (.err b) => some (.err (.nested l b))
    | o => o
  | f, endp, .sub h e, p =>
    match semEvalE G eol inp f endp h p with
    | some (.ok q) =>
      match semEvalE G eol inp f q e p with
      | some (.ok _) => some (.ok q)
      | o => o
    | o => o
termination_by f _ e _ => (f, sizeOf e)

/-- The documented expansion of every rule kind into the PEG operators
    (doc/Rule-Reference.md).  Children are referenced by name. -/
def expandKind : Kind → PExp
  | .atom a => .atom a
  | .seq cs => seqL (cs.map .ref)
  | .sor cs => altL (cs.map .ref)
  -- star< R >;  star_partial< R... > (prose): like star< R... >, but the final, failing iteration
  -- keeps what its successful prefix consumed  ≡  seq< star< R... >, partial< R... > >
  | .starPartial cs => match cs with
    | [c] => .star (.ref c)
    | _ => .seq (.star (seqL (cs.map .ref))) ((partialE (cs.map .ref)).opt)
  | .partialR cs => (partialE (cs.map .ref)).opt
  | .plus c => (PExp.ref c).plus
  | .atR c => .and_ (.ref c)
  | .notAt c => .not_ (.ref c)
  -- until< R >  ≡  until< R, any >
  | .until1 c => .seq (.star (.seq (.not_ (.ref c)) (.atom .any))) (.ref c)
  -- until< R, S... >  ≡  seq< star< not_at< R >, S... >, R >
  | .until2 c b => .seq (.star (.seq (.not_ (.ref c)) (.ref b))) (.ref c)
  | .rep n c => repE n (.ref c)
  -- rep_min_max< Min, Max, R... >  ≡  seq< rep< Min, R... >, rep_opt< Max - Min, R... >, not_at< R... > >
  | .repMinMax lo hi c _ => .seq (repE lo (.ref c)) (.seq (repOptE (hi - lo) (.ref c)) (.not_ (.ref c)))
  | .repOpt n c => repOptE n (.ref c)
  -- if_then_else< R, S, T >  ≡  sor< seq< R, S >, seq< not_at< R >, T > >
  | .ifThenElse c t e => .alt (.seq (.ref c) (.ref t)) (.seq (.not_ (.ref c)) (.ref e))
  -- strict< R, S... >  ≡  sor< not_at< R >, seq< R, S... > >
  | .strict c rest => .alt (.not_ (.ref c)) (.seq (.ref c) (.ref rest))
  -- star_strict< R, S... >  ≡  star< strict< R, S... > >
  | .starStrict c rest => .seq (.star (.seq (.ref c) (.ref rest))) (.not_ (.ref c))
  | .rematch h rs => match rs with
    | [] => .ref h
    | _ => .sub (.ref h) (seqL (rs.map fun r => .and_ (.ref r)))
  -- must< R >  ≡  sor< R, raise< R > >
  | .must c => (PExp.ref c).must c
  -- if_must< R, S... >  ≡  seq< R, must< S... > > ;  opt_must  ≡  opt< if_must >
  | .ifMust dflt c mn => if dflt then (PExp.seq (.ref c) (.ref mn)).opt else .seq (.ref c) (.ref mn)
  | .raise t => .raise t
  | .tryCatchReturnFalse _ c => .catchF (.ref c)
  | .tryCatchRaiseNested _ c => .catchN c (.ref c)
  | .enable c => .ref c
  | .disable c => .ref c
  | .action _ c => .ref c
  | .state _ c => .ref c
  | .ifApply c _ => .ref c
  | .applyR _ => .eps
  | .control _ c => .ref c
where
  /-- `partial< R₁, …, Rₙ >` without the final "always succeed": the longest successful
      prefix of the sequence. -/
  partialE : List PExp → PExp
    | [] => .eps
    | e :: es => .seq e ((partialE es).opt)

/-- The grammar function of a node table. -/
def Gof (g : Grammar) : Nat → Option PExp := fun i => (g[i]?).map fun nd => expandKind nd.kind

inductive SE | node (i : Nat)

def semEval (g : Grammar) (eol : Eol) (inp : Array UInt8) (fuel : Nat) (e : SE) (p : Nat) : Option Outcome :=
  match e with
  | .node i => semEvalE (Gof g) eol inp fuel inp.size (.ref i) p

end Pegtl.Spec
