/-
  Spec/Utf8Enc.lean — what property C17 *means*, independent of the control flow of
  `/repo/include/tao/pegtl/contrib/unescape.hpp`.

  * Unicode scalar values, the UTF-8 bit distribution of the Unicode Standard (Table 3-6)
    as an encoder, and the well-formed byte sequences (Table 3-7) as a decoder.
  * UTF-16 decoding of a sequence of 16-bit code units (surrogate pairs; D91).
  * The value of a hexadecimal digit string.
  * The documented C and JSON escape tables.

  Core Lean only.  Everything lives in `Pegtl.Unescape` so that it cannot collide with the
  decoder-side spec of property C10 (`Spec/Unicode.lean`, namespace `Pegtl.Unicode`); the two
  `isScalar`/`encodeUtf8` are meant to be identical (both written with `/ 64`, `% 64`).
-/
namespace Pegtl.Unescape

/-! ### Unicode scalar values and UTF-8 -/

/-- D76: a Unicode scalar value is a code point that is not a surrogate. -/
def isScalar (cp : Nat) : Prop := cp < 0xD800 ∨ (0xE000 ≤ cp ∧ cp ≤ 0x10FFFF)

instance (cp : Nat) : Decidable (isScalar cp) :=
  inferInstanceAs (Decidable (cp < 0xD800 ∨ (0xE000 ≤ cp ∧ cp ≤ 0x10FFFF)))

/-- Number of bytes of the UTF-8 encoding form. -/
def encLen (cp : Nat) : Nat :=
  if cp < 0x80 then 1 else if cp < 0x800 then 2 else if cp < 0x10000 then 3 else 4

/-- Unicode Table 3-6 (UTF-8 bit distribution), written arithmetically:
    `xxxxxxx`; `110yyyyy 10xxxxxx`; `1110zzzz 10yyyyyy 10xxxxxx`;
    `11110uuu 10uuzzzz 10yyyyyy 10xxxxxx`. -/
def encodeUtf8 (cp : Nat) : List UInt8 :=
  if cp < 0x80 then
    [UInt8.ofNat cp]
  else if cp < 0x800 then
    [UInt8.ofNat (0xC0 + cp / 64), UInt8.ofNat (0x80 + cp % 64)]
  else if cp < 0x10000 then
    [UInt8.ofNat (0xE0 + cp / 4096), UInt8.ofNat (0x80 + cp / 64 % 64), UInt8.ofNat (0x80 + cp % 64)]
  else
    [UInt8.ofNat (0xF0 + cp / 262144), UInt8.ofNat (0x80 + cp / 4096 % 64),
     UInt8.ofNat (0x80 + cp / 64 % 64), UInt8.ofNat (0x80 + cp % 64)]

/-- `lo ≤ b ≤ hi` on a byte. -/
def inR (b : UInt8) (lo hi : Nat) : Bool := decide (lo ≤ b.toNat) && decide (b.toNat ≤ hi)

/-- Unicode Table 3-7 (well-formed UTF-8 byte sequences) as a decoder of the *first* sequence
    of a byte list: `some (code point, length)` exactly when the list starts with a well-formed
    sequence.  Second-byte ranges: `E0 → A0..BF`, `ED → 80..9F`, `F0 → 90..BF`, `F4 → 80..8F`,
    otherwise `80..BF`; lead bytes `C0, C1, F5..FF` and stray continuation bytes are ill-formed. -/
def decodeUtf8 : List UInt8 → Option (Nat × Nat)
  | [] => none
  | b0 :: rest =>
    let n0 := b0.toNat
    if n0 ≤ 0x7F then some (n0, 1)
    else if 0xC2 ≤ n0 ∧ n0 ≤ 0xDF then
      match rest with
      | b1 :: _ =>
        if inR b1 0x80 0xBF then some ((n0 - 0xC0) * 64 + (b1.toNat - 0x80), 2) else none
      | _ => none
    else if 0xE0 ≤ n0 ∧ n0 ≤ 0xEF then
      match rest with
      | b1 :: b2 :: _ =>
        if inR b1 (if n0 = 0xE0 then 0xA0 else 0x80) (if n0 = 0xED then 0x9F else 0xBF)
            && inR b2 0x80 0xBF then
          some ((n0 - 0xE0) * 4096 + (b1.toNat - 0x80) * 64 + (b2.toNat - 0x80), 3)
        else none
      | _ => none
    else if 0xF0 ≤ n0 ∧ n0 ≤ 0xF4 then
      match rest with
      | b1 :: b2 :: b3 :: _ =>
        if inR b1 (if n0 = 0xF0 then 0x90 else 0x80) (if n0 = 0xF4 then 0x8F else 0xBF)
            && inR b2 0x80 0xBF && inR b3 0x80 0xBF then
          some ((n0 - 0xF0) * 262144 + (b1.toNat - 0x80) * 4096 + (b2.toNat - 0x80) * 64
                + (b3.toNat - 0x80), 4)
        else none
      | _ => none
    else none

/-! ### Hexadecimal numerals -/

/-- `'0'..'9' 'a'..'f' 'A'..'F'`. -/
def isXDigit (c : UInt8) : Bool :=
  (48 ≤ c.toNat && c.toNat ≤ 57) || (97 ≤ c.toNat && c.toNat ≤ 102) || (65 ≤ c.toNat && c.toNat ≤ 70)

def hexLower : List Char := ['0', '1', '2', '3', '4', '5', '6', '7', '8', '9', 'a', 'b', 'c', 'd', 'e', 'f']
def hexUpper : List Char := ['0', '1', '2', '3', '4', '5', '6', '7', '8', '9', 'A', 'B', 'C', 'D', 'E', 'F']

/-- Position of the character in the digit alphabet, lower or upper case; `none` for a non-digit. -/
def hexDigitValue (c : UInt8) : Option Nat :=
  match hexLower.idxOf? (Char.ofNat c.toNat) with
  | some i => some i
  | none => hexUpper.idxOf? (Char.ofNat c.toNat)

/-- The value of a digit among `0..15`, `0` for a non-digit (never used on one). -/
def hexVal (c : UInt8) : Nat := (hexDigitValue c).getD 0

/-- Big-endian base-16 value of a digit string. -/
def value16 (ds : List UInt8) : Nat := ds.foldl (fun a d => 16 * a + hexVal d) 0

/-! ### UTF-16 -/

def isHighSurrogate (u : Nat) : Prop := 0xD800 ≤ u ∧ u ≤ 0xDBFF
def isLowSurrogate (u : Nat) : Prop := 0xDC00 ≤ u ∧ u ≤ 0xDFFF

instance (u : Nat) : Decidable (isHighSurrogate u) := inferInstanceAs (Decidable (0xD800 ≤ u ∧ u ≤ 0xDBFF))
instance (u : Nat) : Decidable (isLowSurrogate u) := inferInstanceAs (Decidable (0xDC00 ≤ u ∧ u ≤ 0xDFFF))

/-- The supplementary code point of a surrogate pair (Unicode Table 3-5 / RFC 8259 §7). -/
def combineSurrogates (hi lo : Nat) : Nat := 0x10000 + (hi - 0xD800) * 0x400 + (lo - 0xDC00)

/-- UTF-16 code units → code points, left to right, stopping at the first ill-formed unit:
    a high surrogate followed by a low surrogate is one code point; every non-surrogate unit is
    its own code point; a low surrogate that does not follow a high one, and a high surrogate not
    followed by a low one ("lone surrogates"), are ill-formed.  Returns the code points of the
    longest well-formed prefix and whether the whole sequence was well-formed. -/
def utf16Scan : List Nat → List Nat × Bool
  | [] => ([], true)
  | [u] => if isHighSurrogate u ∨ isLowSurrogate u then ([], false) else ([u], true)
  | u :: l :: rest =>
    if isHighSurrogate u then
      if isLowSurrogate l then
        let r := utf16Scan rest
        (combineSurrogates u l :: r.1, r.2)
      else ([], false)
    else if isLowSurrogate u then ([], false)
    else
      let r := utf16Scan (l :: rest)
      (u :: r.1, r.2)

/-- Well-formed UTF-16 → its code points; `none` exactly when some surrogate is lone. -/
def utf16Decode (units : List Nat) : Option (List Nat) :=
  let r := utf16Scan units
  if r.2 then some r.1 else none

/-- A digit group of a JSON escape: exactly four hexadecimal digits. -/
def Group4 (ds : List UInt8) : Prop := ds.length = 4 ∧ ∀ c ∈ ds, isXDigit c = true

instance (ds : List UInt8) : Decidable (Group4 ds) :=
  inferInstanceAs (Decidable (ds.length = 4 ∧ ∀ c ∈ ds, isXDigit c = true))

/-- The text of consecutive JSON `\uXXXX` escapes with the given digit groups
    (`92` = backslash, `117` = `u`). -/
def jsonEscapes (dss : List (List UInt8)) : List UInt8 := dss.flatMap (fun ds => 92 :: 117 :: ds)

/-! ### Escape tables (as documented) -/

/-- The C escapes of `src/example/pegtl/unescape.cpp`: `\' \" \? \\ \a \b \f \n \r \t \v`
    (ISO C 5.2.2 / 6.4.4.4: BEL 7, BS 8, FF 12, LF 10, CR 13, HT 9, VT 11). -/
def cEscapeTable : List (Char × Nat) :=
  [('\'', 39), ('"', 34), ('?', 63), ('\\', 92), ('a', 7), ('b', 8), ('f', 12), ('n', 10),
   ('r', 13), ('t', 9), ('v', 11)]

/-- The two-character escapes of RFC 8259 §7: `\" \\ \/ \b \f \n \r \t`. -/
def jsonEscapeTable : List (Char × Nat) :=
  [('"', 0x22), ('\\', 0x5C), ('/', 0x2F), ('b', 0x08), ('f', 0x0C), ('n', 0x0A), ('r', 0x0D),
   ('t', 0x09)]

/-- Look a byte up in a documented table. -/
def tableLookup (t : List (Char × Nat)) (c : UInt8) : Option UInt8 :=
  (t.find? (fun p => p.1.toNat = c.toNat)).map (fun p => UInt8.ofNat p.2)

end Pegtl.Unescape
