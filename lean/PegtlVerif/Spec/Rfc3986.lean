/-
  Spec/Rfc3986.lean — what "derivable from an RFC 3986 production" means.

  Part 1 (generic): ABNF (RFC 5234) expressions as data, and the context-free derivation relation
  `Derives g e s` ("the byte string `s` is derivable from the expression `e` under the rule table
  `g`") — alternatives are unordered and repetitions may stop anywhere: no PEG commitments.
  `rems`: an executable recogniser for it (list of possible remainders), used by the driver and
  for concrete witnesses (its soundness `rems_sound` is proved in Lemmas/UriAbnf.lean).

  Part 2 (data): RFC 3986 Appendix A "Collected ABNF for URI" + the three core rules it uses,
  transcribed rule by rule (the ABNF text is quoted beside every rule).  The same text lives in
  /verif/spec/rfc3986.abnf, from which the Python oracle works; on every run `./check C20`
  re-translates that file into Gen/Rfc3986.lean and proves it equal to this table
  (Audit/C20Sync.lean), so the Lean theorems and the oracle talk about the same grammar.

  Core Lean only (the driver links this file).
-/
namespace Pegtl.Spec.Abnf

/-- ABNF expressions over rule names `N`. -/
inductive AExp (N : Type)
  | lit (cs : List UInt8)                           -- "text" — case-insensitive (RFC 5234 §2.3)
  | rng (lo hi : UInt8)                             -- %xLO-HI   (%xNN is `rng NN NN`)
  | ref (n : N)                                     -- rulename
  | cat (a b : AExp N)                              -- a b
  | alt (a b : AExp N)                              -- a / b
  | rep (lo : Nat) (hi : Option Nat) (a : AExp N)   -- lo*hi a   (`none` = no upper bound; `[a]` is `0*1 a`)
  deriving Repr, Inhabited

/-- ASCII lower-casing, for the case-insensitive quoted strings. -/
def lower (c : UInt8) : UInt8 := if 65 ≤ c ∧ c ≤ 90 then c + 32 else c

/-- `s` is the quoted string `cs` up to ASCII case. -/
def litMatch (cs s : List UInt8) : Bool := s.map lower == cs.map lower

/-- Context-free derivability. -/
inductive Derives {N : Type} (g : N → AExp N) : AExp N → List UInt8 → Prop
  | lit {cs s} : litMatch cs s = true → Derives g (.lit cs) s
  | rng {lo hi c} : lo ≤ c → c ≤ hi → Derives g (.rng lo hi) [c]
  | ref {n s} : Derives g (g n) s → Derives g (.ref n) s
  | cat {a b s t} : Derives g a s → Derives g b t → Derives g (.cat a b) (s ++ t)
  | altL {a b s} : Derives g a s → Derives g (.alt a b) s
  | altR {a b s} : Derives g b s → Derives g (.alt a b) s
  | repNil {hi a} : Derives g (.rep 0 hi a) []
  | repCons {lo hi a s t} : hi ≠ some 0 → Derives g a s → Derives g (.rep (lo - 1) (hi.map (· - 1)) a) t →
      Derives g (.rep lo hi a) (s ++ t)

/-- Strip a (case-insensitively) matching prefix. -/
def stripLit : List UInt8 → List UInt8 → Option (List UInt8)
  | [], s => some s
  | _ :: _, [] => none
  | c :: cs, d :: s => if lower c == lower d then stripLit cs s else none

/-- Executable recogniser: every remainder `r` such that `s = t ++ r` with `t` derivable from `e`
    (iterations of a repetition beyond the minimum that consume nothing are not repeated).
    Structural recursion on the fuel (so that it evaluates in the kernel): one unit per level of
    the derivation tree; out of fuel = no remainder. -/
def rems {N : Type} (g : N → AExp N) : Nat → AExp N → List UInt8 → List (List UInt8)
  | 0, _, _ => []
  | f + 1, e, s =>
    match e with
    | .lit cs => (stripLit cs s).toList
    | .rng lo hi => match s with
      | c :: r => if lo ≤ c ∧ c ≤ hi then [r] else []
      | [] => []
    | .ref n => rems g f (g n) s
    | .cat a b => (rems g f a s).flatMap (fun r => rems g f b r)
    | .alt a b => rems g f a s ++ rems g f b s
    | .rep lo hi a =>
      (if lo = 0 then [s] else []) ++
      (if hi = some 0 then [] else
        (rems g f a s).flatMap (fun r =>
          if r.length < s.length ∨ 0 < lo then rems g f (.rep (lo - 1) (hi.map (· - 1)) a) r else []))

/-- `s` is recognised as a complete match of `e`. -/
def recognise {N : Type} (g : N → AExp N) (fuel : Nat) (e : AExp N) (s : List UInt8) : Bool :=
  (rems g fuel e s).any (·.isEmpty)

end Pegtl.Spec.Abnf

namespace Pegtl.Spec.Rfc3986
open Pegtl.Spec.Abnf

/-- The rule names of RFC 3986 Appendix A (`-` written `_`) and the core rules ALPHA, DIGIT, HEXDIG. -/
inductive RuleName

  | URI | hier_part | URI_reference | absolute_URI | relative_ref | relative_part
  | scheme | authority | userinfo | host | port | IP_literal | IPvFuture | IPv6address
  | h16 | ls32 | IPv4address | dec_octet | reg_name | path | path_abempty | path_absolute
  | path_noscheme | path_rootless | path_empty | segment | segment_nz | segment_nz_nc | pchar | query
  | fragment | pct_encoded | unreserved | reserved | gen_delims | sub_delims | ALPHA | DIGIT
  | HEXDIG
  deriving DecidableEq, Repr, Inhabited

/-- RFC 3986 Appendix A. -/
def rfc3986 : RuleName → AExp RuleName
  -- URI           = scheme ":" hier-part [ "?" query ] [ "#" fragment ]
  | .URI =>
    .cat (.ref .scheme) (.cat (.lit [58]) (.cat (.ref .hier_part) (.cat (.rep 0 (some 1) (.cat (.lit [63]) (.ref .query))) (.rep 0 (some 1) (.cat (.lit [35]) (.ref .fragment))))))
  -- hier-part     = "//" authority path-abempty
  -- / path-absolute
  -- / path-rootless
  -- / path-empty
  | .hier_part =>
    .alt (.cat (.lit [47, 47]) (.cat (.ref .authority) (.ref .path_abempty))) (.alt (.ref .path_absolute) (.alt (.ref .path_rootless) (.ref .path_empty)))
  -- URI-reference = URI / relative-ref
  | .URI_reference =>
    .alt (.ref .URI) (.ref .relative_ref)
  -- absolute-URI  = scheme ":" hier-part [ "?" query ]
  | .absolute_URI =>
    .cat (.ref .scheme) (.cat (.lit [58]) (.cat (.ref .hier_part) (.rep 0 (some 1) (.cat (.lit [63]) (.ref .query)))))
  -- relative-ref  = relative-part [ "?" query ] [ "#" fragment ]
  | .relative_ref =>
    .cat (.ref .relative_part) (.cat (.rep 0 (some 1) (.cat (.lit [63]) (.ref .query))) (.rep 0 (some 1) (.cat (.lit [35]) (.ref .fragment))))
  -- relative-part = "//" authority path-abempty
  -- / path-absolute
  -- / path-noscheme
  -- / path-empty
  | .relative_part =>
    .alt (.cat (.lit [47, 47]) (.cat (.ref .authority) (.ref .path_abempty))) (.alt (.ref .path_absolute) (.alt (.ref .path_noscheme) (.ref .path_empty)))
  -- scheme        = ALPHA *( ALPHA / DIGIT / "+" / "-" / "." )
  | .scheme =>
    .cat (.ref .ALPHA) (.rep 0 none (.alt (.ref .ALPHA) (.alt (.ref .DIGIT) (.alt (.lit [43]) (.alt (.lit [45]) (.lit [46]))))))
  -- authority     = [ userinfo "@" ] host [ ":" port ]
  | .authority =>
    .cat (.rep 0 (some 1) (.cat (.ref .userinfo) (.lit [64]))) (.cat (.ref .host) (.rep 0 (some 1) (.cat (.lit [58]) (.ref .port))))
  -- userinfo      = *( unreserved / pct-encoded / sub-delims / ":" )
  | .userinfo =>
    .rep 0 none (.alt (.ref .unreserved) (.alt (.ref .pct_encoded) (.alt (.ref .sub_delims) (.lit [58]))))
  -- host          = IP-literal / IPv4address / reg-name
  | .host =>
    .alt (.ref .IP_literal) (.alt (.ref .IPv4address) (.ref .reg_name))
  -- port          = *DIGIT
  | .port =>
    .rep 0 none (.ref .DIGIT)
  -- IP-literal    = "[" ( IPv6address / IPvFuture  ) "]"
  | .IP_literal =>
    .cat (.lit [91]) (.cat (.alt (.ref .IPv6address) (.ref .IPvFuture)) (.lit [93]))
  -- IPvFuture     = "v" 1*HEXDIG "." 1*( unreserved / sub-delims / ":" )
  | .IPvFuture =>
    .cat (.lit [118]) (.cat (.rep 1 none (.ref .HEXDIG)) (.cat (.lit [46]) (.rep 1 none (.alt (.ref .unreserved) (.alt (.ref .sub_delims) (.lit [58]))))))
  -- IPv6address   =                            6( h16 ":" ) ls32
  -- /                       "::" 5( h16 ":" ) ls32
  -- / [               h16 ] "::" 4( h16 ":" ) ls32
  -- / [ *1( h16 ":" ) h16 ] "::" 3( h16 ":" ) ls32
  -- / [ *2( h16 ":" ) h16 ] "::" 2( h16 ":" ) ls32
  -- / [ *3( h16 ":" ) h16 ] "::"    h16 ":"   ls32
  -- / [ *4( h16 ":" ) h16 ] "::"              ls32
  -- / [ *5( h16 ":" ) h16 ] "::"              h16
  -- / [ *6( h16 ":" ) h16 ] "::"
  | .IPv6address =>
    .alt (.cat (.rep 6 (some 6) (.cat (.ref .h16) (.lit [58]))) (.ref .ls32)) (.alt (.cat (.lit [58, 58]) (.cat (.rep 5 (some 5) (.cat (.ref .h16) (.lit [58]))) (.ref .ls32))) (.alt (.cat (.rep 0 (some 1) (.ref .h16)) (.cat (.lit [58, 58]) (.cat (.rep 4 (some 4) (.cat (.ref .h16) (.lit [58]))) (.ref .ls32)))) (.alt (.cat (.rep 0 (some 1) (.cat (.rep 0 (some 1) (.cat (.ref .h16) (.lit [58]))) (.ref .h16))) (.cat (.lit [58, 58]) (.cat (.rep 3 (some 3) (.cat (.ref .h16) (.lit [58]))) (.ref .ls32)))) (.alt (.cat (.rep 0 (some 1) (.cat (.rep 0 (some 2) (.cat (.ref .h16) (.lit [58]))) (.ref .h16))) (.cat (.lit [58, 58]) (.cat (.rep 2 (some 2) (.cat (.ref .h16) (.lit [58]))) (.ref .ls32)))) (.alt (.cat (.rep 0 (some 1) (.cat (.rep 0 (some 3) (.cat (.ref .h16) (.lit [58]))) (.ref .h16))) (.cat (.lit [58, 58]) (.cat (.ref .h16) (.cat (.lit [58]) (.ref .ls32))))) (.alt (.cat (.rep 0 (some 1) (.cat (.rep 0 (some 4) (.cat (.ref .h16) (.lit [58]))) (.ref .h16))) (.cat (.lit [58, 58]) (.ref .ls32))) (.alt (.cat (.rep 0 (some 1) (.cat (.rep 0 (some 5) (.cat (.ref .h16) (.lit [58]))) (.ref .h16))) (.cat (.lit [58, 58]) (.ref .h16))) (.cat (.rep 0 (some 1) (.cat (.rep 0 (some 6) (.cat (.ref .h16) (.lit [58]))) (.ref .h16))) (.lit [58, 58])))))))))
  -- h16           = 1*4HEXDIG
  | .h16 =>
    .rep 1 (some 4) (.ref .HEXDIG)
  -- ls32          = ( h16 ":" h16 ) / IPv4address
  | .ls32 =>
    .alt (.cat (.ref .h16) (.cat (.lit [58]) (.ref .h16))) (.ref .IPv4address)
  -- IPv4address   = dec-octet "." dec-octet "." dec-octet "." dec-octet
  | .IPv4address =>
    .cat (.ref .dec_octet) (.cat (.lit [46]) (.cat (.ref .dec_octet) (.cat (.lit [46]) (.cat (.ref .dec_octet) (.cat (.lit [46]) (.ref .dec_octet))))))
  -- dec-octet     = DIGIT                 ; 0-9
  -- / %x31-39 DIGIT         ; 10-99
  -- / "1" 2DIGIT            ; 100-199
  -- / "2" %x30-34 DIGIT     ; 200-249
  -- / "25" %x30-35          ; 250-255
  | .dec_octet =>
    .alt (.ref .DIGIT) (.alt (.cat (.rng 49 57) (.ref .DIGIT)) (.alt (.cat (.lit [49]) (.rep 2 (some 2) (.ref .DIGIT))) (.alt (.cat (.lit [50]) (.cat (.rng 48 52) (.ref .DIGIT))) (.cat (.lit [50, 53]) (.rng 48 53)))))
  -- reg-name      = *( unreserved / pct-encoded / sub-delims )
  | .reg_name =>
    .rep 0 none (.alt (.ref .unreserved) (.alt (.ref .pct_encoded) (.ref .sub_delims)))
  -- path          = path-abempty    ; begins with "/" or is empty
  -- / path-absolute   ; begins with "/" but not "//"
  -- / path-noscheme   ; begins with a non-colon segment
  -- / path-rootless   ; begins with a segment
  -- / path-empty      ; zero characters
  | .path =>
    .alt (.ref .path_abempty) (.alt (.ref .path_absolute) (.alt (.ref .path_noscheme) (.alt (.ref .path_rootless) (.ref .path_empty))))
  -- path-abempty  = *( "/" segment )
  | .path_abempty =>
    .rep 0 none (.cat (.lit [47]) (.ref .segment))
  -- path-absolute = "/" [ segment-nz *( "/" segment ) ]
  | .path_absolute =>
    .cat (.lit [47]) (.rep 0 (some 1) (.cat (.ref .segment_nz) (.rep 0 none (.cat (.lit [47]) (.ref .segment)))))
  -- path-noscheme = segment-nz-nc *( "/" segment )
  | .path_noscheme =>
    .cat (.ref .segment_nz_nc) (.rep 0 none (.cat (.lit [47]) (.ref .segment)))
  -- path-rootless = segment-nz *( "/" segment )
  | .path_rootless =>
    .cat (.ref .segment_nz) (.rep 0 none (.cat (.lit [47]) (.ref .segment)))
  -- path-empty    = 0<pchar>
  | .path_empty =>
    .rep 0 (some 0) (.ref .pchar)
  -- segment       = *pchar
  | .segment =>
    .rep 0 none (.ref .pchar)
  -- segment-nz    = 1*pchar
  | .segment_nz =>
    .rep 1 none (.ref .pchar)
  -- segment-nz-nc = 1*( unreserved / pct-encoded / sub-delims / "@" )
  | .segment_nz_nc =>
    .rep 1 none (.alt (.ref .unreserved) (.alt (.ref .pct_encoded) (.alt (.ref .sub_delims) (.lit [64]))))
  -- pchar         = unreserved / pct-encoded / sub-delims / ":" / "@"
  | .pchar =>
    .alt (.ref .unreserved) (.alt (.ref .pct_encoded) (.alt (.ref .sub_delims) (.alt (.lit [58]) (.lit [64]))))
  -- query         = *( pchar / "/" / "?" )
  | .query =>
    .rep 0 none (.alt (.ref .pchar) (.alt (.lit [47]) (.lit [63])))
  -- fragment      = *( pchar / "/" / "?" )
  | .fragment =>
    .rep 0 none (.alt (.ref .pchar) (.alt (.lit [47]) (.lit [63])))
  -- pct-encoded   = "%" HEXDIG HEXDIG
  | .pct_encoded =>
    .cat (.lit [37]) (.cat (.ref .HEXDIG) (.ref .HEXDIG))
  -- unreserved    = ALPHA / DIGIT / "-" / "." / "_" / "~"
  | .unreserved =>
    .alt (.ref .ALPHA) (.alt (.ref .DIGIT) (.alt (.lit [45]) (.alt (.lit [46]) (.alt (.lit [95]) (.lit [126])))))
  -- reserved      = gen-delims / sub-delims
  | .reserved =>
    .alt (.ref .gen_delims) (.ref .sub_delims)
  -- gen-delims    = ":" / "/" / "?" / "#" / "[" / "]" / "@"
  | .gen_delims =>
    .alt (.lit [58]) (.alt (.lit [47]) (.alt (.lit [63]) (.alt (.lit [35]) (.alt (.lit [91]) (.alt (.lit [93]) (.lit [64]))))))
  -- sub-delims    = "!" / "$" / "&" / "'" / "(" / ")"
  -- / "*" / "+" / "," / ";" / "="
  | .sub_delims =>
    .alt (.lit [33]) (.alt (.lit [36]) (.alt (.lit [38]) (.alt (.lit [39]) (.alt (.lit [40]) (.alt (.lit [41]) (.alt (.lit [42]) (.alt (.lit [43]) (.alt (.lit [44]) (.alt (.lit [59]) (.lit [61]))))))))))
  -- ALPHA         = %x41-5A / %x61-7A   ; A-Z / a-z
  | .ALPHA =>
    .alt (.rng 65 90) (.rng 97 122)
  -- DIGIT         = %x30-39             ; 0-9
  | .DIGIT =>
    .rng 48 57
  -- HEXDIG        = DIGIT / "A" / "B" / "C" / "D" / "E" / "F"
  | .HEXDIG =>
    .alt (.ref .DIGIT) (.alt (.lit [65]) (.alt (.lit [66]) (.alt (.lit [67]) (.alt (.lit [68]) (.alt (.lit [69]) (.lit [70]))))))

/-- The printed names, in the order of spec/rfc3986.abnf. -/
def ruleNames : List (String × RuleName) := [("URI", .URI), ("hier-part", .hier_part), ("URI-reference", .URI_reference), ("absolute-URI", .absolute_URI), ("relative-ref", .relative_ref), ("relative-part", .relative_part), ("scheme", .scheme), ("authority", .authority), ("userinfo", .userinfo), ("host", .host), ("port", .port), ("IP-literal", .IP_literal), ("IPvFuture", .IPvFuture), ("IPv6address", .IPv6address), ("h16", .h16), ("ls32", .ls32), ("IPv4address", .IPv4address), ("dec-octet", .dec_octet), ("reg-name", .reg_name), ("path", .path), ("path-abempty", .path_abempty), ("path-absolute", .path_absolute), ("path-noscheme", .path_noscheme), ("path-rootless", .path_rootless), ("path-empty", .path_empty), ("segment", .segment), ("segment-nz", .segment_nz), ("segment-nz-nc", .segment_nz_nc), ("pchar", .pchar), ("query", .query), ("fragment", .fragment), ("pct-encoded", .pct_encoded), ("unreserved", .unreserved), ("reserved", .reserved), ("gen-delims", .gen_delims), ("sub-delims", .sub_delims), ("ALPHA", .ALPHA), ("DIGIT", .DIGIT), ("HEXDIG", .HEXDIG)]

/-- "`s` is derivable from the RFC 3986 production `X`". -/
abbrev DerivesRfc (X : RuleName) (s : List UInt8) : Prop := Derives rfc3986 (.ref X) s

end Pegtl.Spec.Rfc3986
