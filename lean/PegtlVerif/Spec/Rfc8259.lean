/-
  Spec/Rfc8259.lean — the language of RFC 8259 ("The JavaScript Object Notation (JSON) Data
  Interchange Format"), section 2–7, as predicates on byte strings.  This file is the *meaning*
  of property C14; it is written from the RFC's ABNF (transcribed in /verif/spec/rfc8259.abnf,
  which the Python oracle of vlib/c14.py interprets), one definition per ABNF rule, and does not
  mention PEGTL, PEGs or ordered choice.

  Conventions.  A rule `X = …` is a predicate `X : Str → Prop` ("the byte string is derived from
  X").  Concatenation is `++`, `*X` is "a concatenation of any number of X", `[ X ]` is `Opt X`.
  The recursive rules (`value`, `object`, `member`, `array` and the two repetitions
  `*( value-separator member )`, `*( value-separator value )`) form one inductive family
  `Derives : NT → Str → Prop` indexed by the nonterminal.

  `unescaped = %x20-21 / %x23-5B / %x5D-10FFFF` ranges over *code points*; RFC 8259 §8.1 requires
  UTF-8, so a code point stands for its well-formed UTF-8 encoding (Unicode Table 3-6/3-7:
  `Unicode.encodeUtf8` of a scalar value — surrogate code points have no well-formed encoding).
  Core Lean only.
-/
import PegtlVerif.Spec.Unicode

namespace Pegtl.Rfc8259
open Pegtl.Unicode

abbrev Str := List UInt8

/-- `[ X ]` -/
def Opt (X : Str → Prop) (s : Str) : Prop := s = [] ∨ X s

/-! ### §2  Grammar: whitespace and the six structural characters -/

/-- One of `%x20 / %x09 / %x0A / %x0D` (space, horizontal tab, line feed, carriage return). -/
def IsWs (c : UInt8) : Prop := c = 0x20 ∨ c = 0x09 ∨ c = 0x0A ∨ c = 0x0D

/-- `ws = *( %x20 / %x09 / %x0A / %x0D )` -/
def Ws (s : Str) : Prop := ∀ c ∈ s, IsWs c

/-- `ws %xNN ws`: a structural character with insignificant whitespace around it. -/
def Structural (c : UInt8) (s : Str) : Prop := ∃ a b, Ws a ∧ Ws b ∧ s = a ++ c :: b

/-- `begin-array     = ws %x5B ws  ; [ left square bracket` -/
def BeginArray : Str → Prop := Structural 0x5B
/-- `begin-object    = ws %x7B ws  ; { left curly bracket` -/
def BeginObject : Str → Prop := Structural 0x7B
/-- `end-array       = ws %x5D ws  ; ] right square bracket` -/
def EndArray : Str → Prop := Structural 0x5D
/-- `end-object      = ws %x7D ws  ; } right curly bracket` -/
def EndObject : Str → Prop := Structural 0x7D
/-- `name-separator  = ws %x3A ws  ; : colon` -/
def NameSeparator : Str → Prop := Structural 0x3A
/-- `value-separator = ws %x2C ws  ; , comma` -/
def ValueSeparator : Str → Prop := Structural 0x2C

/-! ### §3  Values: the three literal names -/

/-- `false = %x66.61.6c.73.65   ; false` -/
def litFalse : Str := [0x66, 0x61, 0x6c, 0x73, 0x65]
/-- `null  = %x6e.75.6c.6c      ; null` -/
def litNull : Str := [0x6e, 0x75, 0x6c, 0x6c]
/-- `true  = %x74.72.75.65      ; true` -/
def litTrue : Str := [0x74, 0x72, 0x75, 0x65]

/-! ### §6  Numbers -/

/-- `DIGIT = %x30-39` (RFC 5234 B.1) -/
def IsDigit (c : UInt8) : Prop := 0x30 ≤ c ∧ c ≤ 0x39
/-- `digit1-9 = %x31-39         ; 1-9` -/
def IsDigit19 (c : UInt8) : Prop := 0x31 ≤ c ∧ c ≤ 0x39
/-- `*DIGIT` -/
def Digits (s : Str) : Prop := ∀ c ∈ s, IsDigit c
/-- `1*DIGIT` -/
def Digits1 (s : Str) : Prop := s ≠ [] ∧ Digits s

/-- `minus = %x2D               ; -` -/
def Minus (s : Str) : Prop := s = [0x2D]
/-- `int = zero / ( digit1-9 *DIGIT )`,  `zero = %x30` -/
def Int (s : Str) : Prop := s = [0x30] ∨ ∃ d ds, s = d :: ds ∧ IsDigit19 d ∧ Digits ds
/-- `frac = decimal-point 1*DIGIT`,  `decimal-point = %x2E` -/
def Frac (s : Str) : Prop := ∃ ds, s = 0x2E :: ds ∧ Digits1 ds
/-- `exp = e [ minus / plus ] 1*DIGIT`,  `e = %x65 / %x45`,  `plus = %x2B` -/
def Exp (s : Str) : Prop :=
  ∃ e sg ds, s = e :: (sg ++ ds) ∧ (e = 0x65 ∨ e = 0x45) ∧ Opt (fun x => x = [0x2D] ∨ x = [0x2B]) sg ∧ Digits1 ds
/-- `number = [ minus ] int [ frac ] [ exp ]` -/
def Number (s : Str) : Prop :=
  ∃ m i f e, s = m ++ (i ++ (f ++ e)) ∧ Opt Minus m ∧ Int i ∧ Opt Frac f ∧ Opt Exp e

/-! ### §7  Strings -/

/-- `HEXDIG = DIGIT / "A" / "B" / "C" / "D" / "E" / "F"` (RFC 5234 B.1; ABNF strings are
    case-insensitive, so `a`–`f` are included). -/
def IsHexDig (c : UInt8) : Prop := IsDigit c ∨ (0x41 ≤ c ∧ c ≤ 0x46) ∨ (0x61 ≤ c ∧ c ≤ 0x66)

/-- `unescaped = %x20-21 / %x23-5B / %x5D-10FFFF`, UTF-8 encoded. -/
def Unescaped (s : Str) : Prop :=
  ∃ cp, ((0x20 ≤ cp ∧ cp ≤ 0x21) ∨ (0x23 ≤ cp ∧ cp ≤ 0x5B) ∨ (0x5D ≤ cp ∧ cp ≤ 0x10FFFF)) ∧
    isScalar cp ∧ s = encodeUtf8 cp

/-- The one-character escapes: `%x22 / %x5C / %x2F / %x62 / %x66 / %x6E / %x72 / %x74`
    (`"  \  /  b  f  n  r  t`). -/
def IsSimpleEscape (c : UInt8) : Prop :=
  c = 0x22 ∨ c = 0x5C ∨ c = 0x2F ∨ c = 0x62 ∨ c = 0x66 ∨ c = 0x6E ∨ c = 0x72 ∨ c = 0x74

/-- `char = unescaped /
       escape ( %x22 / %x5C / %x2F / %x62 / %x66 / %x6E / %x72 / %x74 / %x75 4HEXDIG )`,
    `escape = %x5C`. -/
def Char (s : Str) : Prop :=
  Unescaped s ∨
  (∃ c, s = [0x5C, c] ∧ IsSimpleEscape c) ∨
  (∃ a b c d, s = [0x5C, 0x75, a, b, c, d] ∧ IsHexDig a ∧ IsHexDig b ∧ IsHexDig c ∧ IsHexDig d)

/-- `*char` -/
inductive Chars : Str → Prop
  | nil : Chars []
  | cons {c cs : Str} : Char c → Chars cs → Chars (c ++ cs)

/-- `string = quotation-mark *char quotation-mark`,  `quotation-mark = %x22` -/
def String (s : Str) : Prop := ∃ cs, Chars cs ∧ s = 0x22 :: (cs ++ [0x22])

/-! ### §3–§5  Values, objects, arrays -/

/-- The recursive nonterminals; `members` is `*( value-separator member )` and `elements` is
    `*( value-separator value )`. -/
inductive NT | value | object | member | members | array | elements
  deriving DecidableEq, Repr

inductive Derives : NT → Str → Prop
  /- `value = false / null / true / object / array / number / string` -/
  | vFalse : Derives .value litFalse
  | vNull : Derives .value litNull
  | vTrue : Derives .value litTrue
  | vObject {s} : Derives .object s → Derives .value s
  | vArray {s} : Derives .array s → Derives .value s
  | vNumber {s} : Number s → Derives .value s
  | vString {s} : String s → Derives .value s
  /- `object = begin-object [ member *( value-separator member ) ] end-object` -/
  | objectEmpty {b e} : BeginObject b → EndObject e → Derives .object (b ++ e)
  | objectMembers {b m ms e} : BeginObject b → Derives .member m → Derives .members ms → EndObject e →
      Derives .object (b ++ (m ++ (ms ++ e)))
  /- `*( value-separator member )` -/
  | membersNil : Derives .members []
  | membersCons {c m ms} : ValueSeparator c → Derives .member m → Derives .members ms →
      Derives .members (c ++ (m ++ ms))
  /- `member = string name-separator value` -/
  | member {k c v} : String k → NameSeparator c → Derives .value v → Derives .member (k ++ (c ++ v))
  /- `array = begin-array [ value *( value-separator value ) ] end-array` -/
  | arrayEmpty {b e} : BeginArray b → EndArray e → Derives .array (b ++ e)
  | arrayElements {b v vs e} : BeginArray b → Derives .value v → Derives .elements vs → EndArray e →
      Derives .array (b ++ (v ++ (vs ++ e)))
  /- `*( value-separator value )` -/
  | elementsNil : Derives .elements []
  | elementsCons {c v vs} : ValueSeparator c → Derives .value v → Derives .elements vs →
      Derives .elements (c ++ (v ++ vs))

/-- `JSON-text = ws value ws` (§2): a well-formed UTF-8 encoded JSON text. -/
def JsonText (s : Str) : Prop := ∃ a v b, Ws a ∧ Derives .value v ∧ Ws b ∧ s = a ++ (v ++ b)

end Pegtl.Rfc8259
