/-
  Spec/Lines.lean — what "the line containing position `p`" means for an input and an
  end-of-line policy.  Independent of the code's pointer/column arithmetic: everything
  here is stated over the bytes of the input and an index `p` into it (`0 ≤ p ≤ size`).

  doc/Inputs-and-Parsing.md: "`at( p )`, `begin_of_line( p )`, `end_of_line( p )` return a
  `const char*` to position `p`, the begin-of-line before `p`, or the end-of-line after `p`
  (or the end of the input if the input is not terminated by an end-of-line) ...
  `line_at( p )` returns a `std::string_view` with the complete line around `p`."

  * A line **ends** at the first index `q ≥ p` where the policy's `eolf` rule matches, i.e.
    where an end-of-line sequence of the policy starts or the input ends.
  * A line **begins** directly after the last *line-break byte* before `p` (or at 0); the
    line-break byte of a policy is the byte on which line/column counting starts a new
    line (doc/Rule-Reference / `Eol::ch`): LF for `lf`, `crlf`, `lf_crlf`; CR for `cr`,
    `cr_crlf`.

  (Only `Eol`, the enumeration of the five policies, is taken from Model/Basic.lean.)
-/
import PegtlVerif.Model.Basic

namespace Pegtl
namespace LineSpec

/-- Byte `i` of the input exists and equals `c`. -/
def isByte (inp : Array UInt8) (i : Nat) (c : UInt8) : Bool := inp[i]? == some c

/-- The byte after which line/column counting begins a new line. -/
def lineBreak : Eol → UInt8
  | .lf => 10 | .cr => 13 | .crlf => 10 | .lfCrlf => 10 | .crCrlf => 13

/-- An end-of-line sequence of the policy starts at index `q`
    (`lf`: LF; `cr`: CR; `crlf`: CR LF; `lf_crlf`: LF or CR LF; `cr_crlf`: CR LF or CR). -/
def eolAt : Eol → Array UInt8 → Nat → Bool
  | .lf, inp, q => isByte inp q 10
  | .cr, inp, q => isByte inp q 13
  | .crlf, inp, q => isByte inp q 13 && isByte inp (q + 1) 10
  | .lfCrlf, inp, q => isByte inp q 10 || (isByte inp q 13 && isByte inp (q + 1) 10)
  | .crCrlf, inp, q => isByte inp q 13

/-- `eolf` matches at `q`: end of input, or an end-of-line sequence starts there. -/
def eolfAt (e : Eol) (inp : Array UInt8) (q : Nat) : Bool := q == inp.size || eolAt e inp q

/-- `b` is the begin of the line containing index `p`: at or before `p`, at the start of the
    data or directly after a line-break byte, and no line-break byte in `[b, p)`. -/
def IsLineBegin (e : Eol) (inp : Array UInt8) (p b : Nat) : Prop :=
  b ≤ p ∧ (b = 0 ∨ isByte inp (b - 1) (lineBreak e) = true) ∧
    ∀ i, i < p → b ≤ i → isByte inp i (lineBreak e) = false

/-- `q` is the end of the line containing index `p`: the first index at or after `p` where
    `eolf` matches; it never lies beyond the data. -/
def IsLineEnd (e : Eol) (inp : Array UInt8) (p q : Nat) : Prop :=
  p ≤ q ∧ q ≤ inp.size ∧ eolfAt e inp q = true ∧ ∀ i, i < q → p ≤ i → eolfAt e inp i = false

/-- `s` is exactly the bytes of the line containing index `p`. -/
def IsLine (e : Eol) (inp : Array UInt8) (p : Nat) (s : List UInt8) : Prop :=
  ∃ b q, IsLineBegin e inp p b ∧ IsLineEnd e inp p q ∧ s = (inp.extract b q).toList

instance (e : Eol) (inp : Array UInt8) (p b : Nat) : Decidable (IsLineBegin e inp p b) := by
  unfold IsLineBegin; infer_instance

instance (e : Eol) (inp : Array UInt8) (p q : Nat) : Decidable (IsLineEnd e inp p q) := by
  unfold IsLineEnd; infer_instance

/-- The two predicates determine their index: there is exactly one line around `p`. -/
theorem IsLineBegin.unique {e inp p b b'} (h : IsLineBegin e inp p b) (h' : IsLineBegin e inp p b') :
    b = b' := by
  obtain ⟨h1, h2, h3⟩ := h
  obtain ⟨h1', h2', h3'⟩ := h'
  apply Nat.le_antisymm
  · apply Nat.le_of_not_lt; intro hlt
    rcases h2 with h2 | h2
    · omega
    · have := h3' (b - 1) (by omega) (by omega); rw [h2] at this; cases this
  · apply Nat.le_of_not_lt; intro hlt
    rcases h2' with h2' | h2'
    · omega
    · have := h3 (b' - 1) (by omega) (by omega); rw [h2'] at this; cases this

theorem IsLineEnd.unique {e inp p q q'} (h : IsLineEnd e inp p q) (h' : IsLineEnd e inp p q') :
    q = q' := by
  obtain ⟨h1, _, h2, h3⟩ := h
  obtain ⟨h1', _, h2', h3'⟩ := h'
  apply Nat.le_antisymm
  · apply Nat.le_of_not_lt; intro hlt
    have := h3 q' hlt h1'; rw [h2'] at this; cases this
  · apply Nat.le_of_not_lt; intro hlt
    have := h3' q hlt h1; rw [h2] at this; cases this

end LineSpec
end Pegtl
