/-
  DrvC07.lean — line-protocol driver for the C07 model (native `lean_exe`, core Lean only).

  stdin, one case per line:
      <Chunk> <maximum> <eol: lf_crlf|cr_crlf> <stream hex | -> <schedule: comma separated counts | -> <op> <op> ...
  ops:  R<n> require   S<n> size   E empty   N<n> end( n ) - current()   B<n> bump   L<n> bump_in_this_line
        T<n> bump_to_next_line   P<off> peek_uint8   D discard   W<k> rewind_save into slot k   U<k> rewind_restore from slot k
        M<atom> Rule::match( in ) of an atom: any one(one< 'a' >) not(not_one< 'a' >) rng(range< 'a', 'c' >) rgs(ranges< 'a', 'b', 'x', 'z', '\n' >)
          str(string< 'a', 'b', 'c' >) stn(string< 'a', '\n' >) ist(istring< 'a', 'B' >) by3(bytes< 3 >) eof bof bol eol eolf evr(everything) rq2(require< 2 >) suc fai
          r13(rep_one_min_max< 1, 3, 'a' >) r02(rep_one_min_max< 0, 2, 'a' >) rn2(rep_one_min_max< 1, 2, '\n' >)
          u8r(utf8::range< 0x80, 0x7FF >) u8n(utf8::not_range< 0x61, 0xFFFF >) u8w(utf8::range< 0, 0x10FFFF >)
  stdout, one line per case: `init=<capacity>/<state>` followed by one record `<op>=<obs>/<state>` per op;
      obs   = ok | ovf (std::overflow_error) | a number | ill (call outside its contract: not executed)
      state = cur:occupied:free_after_end:byte:line:column:fed:<hex of the window [current, end)>
  The same lines are printed by harness/leaf_c07.cpp from the real buffer_input with a scripted reader.
-/
import PegtlVerif.Model.Buffer

open Pegtl Pegtl.Buf

def hexVal (c : Char) : Nat :=
  if '0' ≤ c ∧ c ≤ '9' then c.toNat - '0'.toNat
  else if 'a' ≤ c ∧ c ≤ 'f' then c.toNat - 'a'.toNat + 10
  else if 'A' ≤ c ∧ c ≤ 'F' then c.toNat - 'A'.toNat + 10
  else 0

def parseHex (s : String) : Array UInt8 :=
  if s == "-" then #[] else
  let rec go : List Char → Array UInt8 → Array UInt8
    | a :: b :: rest, acc => go rest (acc.push (UInt8.ofNat (hexVal a * 16 + hexVal b)))
    | _, acc => acc
  go s.toList #[]

def nat! (s : String) : Nat := s.toNat?.getD 0

def hexDigit (n : Nat) : Char := if n < 10 then Char.ofNat (48 + n) else Char.ofNat (87 + n)

def windowHex (b : Buffer) : String := Id.run do
  let mut s := ""
  for k in [b.cur.data:b.endb] do
    let c := (b.mem.getD k 0).toNat
    s := s.push (hexDigit (c / 16))
    s := s.push (hexDigit (c % 16))
  return if s.isEmpty then "-" else s

def stateStr (b : Buffer) : String :=
  s!"{b.freeBeforeCurrent}:{b.occupied}:{b.freeAfterEnd}:{b.cur.byte}:{b.cur.line}:{b.cur.col}:{b.fed}:{windowHex b}"

def obsStr : Obs → String
  | .unit => "ok" | .overflow => "ovf" | .num n => toString n
  | .bool v => if v then "1" else "0" | .byte c => toString c.toNat

def atomOf : String → Option Atom
  | "any" => some .any
  | "one" => some (.one true [97])
  | "not" => some (.one false [97])
  | "rng" => some (.range true 97 99)
  | "rgs" => some (.ranges [(97, 98), (120, 122)] (some 10))
  | "str" => some (.string [97, 98, 99])
  | "stn" => some (.string [97, 10])
  | "ist" => some (.istring [97, 66])
  | "by3" => some (.bytes 3)
  | "eof" => some .eof
  | "bof" => some .bof
  | "bol" => some .bol
  | "eol" => some .eol
  | "eolf" => some .eolf
  | "evr" => some .everything
  | "rq2" => some (.require 2)
  | "r13" => some (.repOne 1 3 97)
  | "r02" => some (.repOne 0 2 97)
  | "rn2" => some (.repOne 1 2 10)
  | "u8r" => some (.utf8Range true 0x80 0x7FF)
  | "u8n" => some (.utf8Range false 0x61 0xFFFF)
  | "u8w" => some (.utf8Range true 0 0x10FFFF)
  | "suc" => some .success
  | "fai" => some .failure
  | _ => none

/-- One op token: returns the record and the new state / slots. -/
def doOp (b : Buffer) (slots : Array (Option It)) (tok : String) : String × Buffer × Array (Option It) :=
  let k := tok.toList.headD (Char.ofNat 63)
  let n := nat! (tok.drop 1).toString
  let exec (op : Op) : String × Buffer × Array (Option It) :=
    if op.Legal b then
      let r := b.step op
      (s!"{tok}={obsStr r.1}/{stateStr r.2}", r.2, slots)
    else (s!"{tok}=ill/{stateStr b}", b, slots)
  match k with
  | 'R' => exec (.require n)
  | 'S' => exec (.size n)
  | 'E' => exec .empty
  | 'N' =>
    -- end( n ) is reported relative to current()
    match b.endOf n with
    | (.done, e, b') => (s!"{tok}={e - b'.cur.data}/{stateStr b'}", b', slots)
    | (.overflow, _, b') => (s!"{tok}=ovf/{stateStr b'}", b', slots)
  | 'B' => exec (.bump n)
  | 'L' => exec (.bumpInThisLine n)
  | 'T' => exec (.bumpToNextLine n)
  | 'P' => exec (.peek n)
  | 'D' => exec .discard
  | 'M' =>
    match atomOf (tok.drop 1).toString with
    | some a =>
      match atomStepBuf a b with
      | (.done, r, b') => (s!"{tok}={if r then 1 else 0}/{stateStr b'}", b', slots)
      | (.overflow, _, b') => (s!"{tok}=ovf/{stateStr b'}", b', slots)
    | none => (s!"{tok}=bad/{stateStr b}", b, slots)
  | 'W' =>
    let slots := if n < slots.size then slots.set! n (some b.save) else slots
    (s!"{tok}=ok/{stateStr b}", b, slots)
  | 'U' =>
    match slots.getD n none with
    | some it => exec (.restore it)
    | none => (s!"{tok}=ill/{stateStr b}", b, slots)
  | _ => (s!"{tok}=bad/{stateStr b}", b, slots)

def parseSched (s : String) : List Nat :=
  if s == "-" then [] else (s.splitOn ",").map nat!

def step (line : String) : String :=
  match line.trimAscii.toString.splitOn " " with
  | ch :: mx :: e :: hx :: sc :: ops =>
    let eol := if e == "cr_crlf" then Eol.crCrlf else Eol.lfCrlf
    let b0 := Buffer.init (parseHex hx) (parseSched sc) (nat! mx) (nat! ch) eol
    let (out, _, _) := ops.foldl (fun (acc : Array String × Buffer × Array (Option It)) tok =>
        if tok.isEmpty then acc else
        let (o, b, sl) := acc
        let (rec, b', sl') := doOp b sl tok
        (o.push rec, b', sl')) (#[s!"init={b0.capacity}/{stateStr b0}"], b0, Array.replicate 4 none)
    " ".intercalate out.toList
  | _ => s!"BAD {line}"

partial def loop (h out : IO.FS.Stream) : IO Unit := do
  let line ← h.getLine
  if line.isEmpty then return ()
  if line.trimAscii.toString.isEmpty then loop h out else
  out.putStrLn (step line)
  loop h out

def main : IO Unit := do
  let stdin ← IO.getStdin
  let stdout ← IO.getStdout
  loop stdin stdout
