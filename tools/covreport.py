#!/usr/bin/env python3
"""Line coverage of /repo/include by the checks' own harness binaries (development aid, not a check).

Usage: build and run the checks with a g++ wrapper that adds --coverage (see DESIGN.md §10), then
  python3 tools/covreport.py <build-dir> [<out.json>]
Aggregates gcov's JSON over all .gcda files: per header the instrumented lines never executed in any
translation unit, and the headers under include/ that no translation unit instantiated at all.
"""
import json, subprocess, sys, os, gzip
from pathlib import Path
from collections import defaultdict
from concurrent.futures import ThreadPoolExecutor

build = Path(sys.argv[1])
inc = Path(os.environ.get('VERIF_REPO', '/repo')) / 'include'
lines = defaultdict(dict)      # file -> line -> count
funcs = defaultdict(dict)      # file -> (demangled) -> count

def one(gcda):
    p = subprocess.run(['gcov', '--json-format', '--stdout', '-m', str(gcda)], capture_output=True, cwd=gcda.parent)
    if p.returncode != 0:
        return None
    try:
        return json.loads(p.stdout)
    except Exception:
        return None

gcdas = sorted(build.rglob('*.gcda'))
with ThreadPoolExecutor(8) as ex:
    for d in ex.map(one, gcdas):
        if not d:
            continue
        for f in d.get('files', []):
            fn = f['file']
            if '/include/tao/pegtl' not in fn:
                continue
            fn = fn[fn.index('include/tao/pegtl'):]
            L = lines[fn]
            for l in f['lines']:
                L[l['line_number']] = L.get(l['line_number'], 0) + l['count']
            F = funcs[fn]
            for fu in f.get('functions', []):
                # collapse template arguments: the first 60 chars of the demangled name up to '<' of the outermost rule
                F[(fu['start_line'], fu['end_line'])] = F.get((fu['start_line'], fu['end_line']), 0) + fu['execution_count']

allh = sorted(str(p.relative_to(inc.parent)) for p in inc.rglob('*.hpp'))
untouched = [h for h in allh if h not in lines]
rep = {'gcda': len(gcdas), 'headers_total': len(allh), 'headers_untouched': untouched, 'zero_lines': {}, 'zero_funcs': {}}
for h in sorted(lines):
    z = sorted(n for n, c in lines[h].items() if c == 0)
    if z:
        rep['zero_lines'][h] = z
    zf = sorted(k for k, c in funcs[h].items() if c == 0)
    if zf:
        rep['zero_funcs'][h] = zf
out = sys.argv[2] if len(sys.argv) > 2 else '/dev/stdout'
json.dump(rep, open(out, 'w'), indent=1)
tot = sum(len(v) for v in lines.values()); zero = sum(len(v) for v in rep['zero_lines'].values())
print(f"gcda={len(gcdas)} headers touched={len(lines)}/{len(allh)} instrumented lines={tot} never executed={zero}", file=sys.stderr)
