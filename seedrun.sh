#!/bin/bash
# ./seedrun.sh <seed id> <prop> [<prop> ...] : run checks against a scratch copy of /repo with the seeded patch applied
sid=$1; shift
for p in "$@"; do
  echo "== seed $sid check $p"
  ./mutcheck $p --patch /tmp/seed_out/$sid/patch.diff 2>&1 | tail -4
done
